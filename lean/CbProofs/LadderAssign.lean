import CbModel.LadderAssign
import CbProofs.Ladder
/- helper lemmas for CbProps/C02Assign.lean -/
namespace CbModel.Ladder

/-- the ladder returned everything: the assignment level has nothing to do -/
theorem parseAssign_base_nil (t : Table) (aops : List String) (f : Nat) (ts : List Tok) (e : LExpr)
    (h : parse t f 0 ts = some (e, [])) : parseAssign t aops (f + 1) ts = some (.base e, []) := by
  unfold parseAssign
  rw [h]

/-- the ladder stopped in front of an assignment operator and the left side is an lvalue -/
theorem parseAssign_assign_step (t : Table) (aops : List String) (f : Nat) (ts r : List Tok) (l : LExpr) (s : String)
    (h : parse t f 0 ts = some (l, .op s :: r)) (hs : s ∈ aops) (hl : isTarget l = true) :
    parseAssign t aops (f + 1) ts =
      match parseAssign t aops f r with
      | some (b, r1) => some (.assign s l b, r1)
      | none => none := by
  conv => lhs; unfold parseAssign
  rw [h]
  simp only [hs, hl, ↓reduceIte]
  cases parseAssign t aops f r with
  | none => rfl
  | some p => cases p; rfl

/-- the ladder stopped in front of an assignment operator and the left side is not an lvalue -/
theorem parseAssign_reject (t : Table) (aops : List String) (f : Nat) (ts r : List Tok) (l : LExpr) (s : String)
    (h : parse t f 0 ts = some (l, .op s :: r)) (hs : s ∈ aops) (hl : isTarget l = false) :
    parseAssign t aops (f + 1) ts = none := by
  unfold parseAssign
  rw [h]
  simp [hs, hl]

theorem parseAssign_mono (t : Table) (aops : List String) : ∀ (f : Nat) (ts : List Tok) (r : AExpr × List Tok),
    parseAssign t aops f ts = some r → parseAssign t aops (f + 1) ts = some r
  | 0, _, _, h => by simp [parseAssign] at h
  | f + 1, ts, r, h => by
    unfold parseAssign at h ⊢
    cases h1 : parse t f 0 ts with
    | none => simp [h1] at h
    | some lr =>
      obtain ⟨l, r0⟩ := lr
      rw [parse_mono t f 0 ts _ h1]
      simp only [h1] at h
      cases r0 with
      | nil => simpa using h
      | cons tk r1 =>
        cases tk with
        | op s =>
          simp only at h ⊢
          split at h
          · rename_i hs
            rw [if_pos hs]
            split at h
            · rename_i hl
              rw [if_pos hl]
              cases h2 : parseAssign t aops f r1 with
              | none => simp [h2] at h
              | some br =>
                rw [parseAssign_mono t aops f r1 _ h2]
                simpa [h2] using h
            · simp at h
          · rename_i hs
            rw [if_neg hs]
            exact h
        | _ => simpa using h

theorem parseAssign_mono_le (t : Table) (aops : List String) {f f' : Nat} {ts : List Tok} {r : AExpr × List Tok}
    (h : parseAssign t aops f ts = some r) (hle : f ≤ f') : parseAssign t aops f' ts = some r := by
  induction hle with
  | refl => exact h
  | step _ ih => exact parseAssign_mono t aops _ ts r ih

theorem parseAssign_fuel_indep (t : Table) (aops : List String) {f f' : Nat} {ts : List Tok} {r r' : AExpr × List Tok}
    (h : parseAssign t aops f ts = some r) (h' : parseAssign t aops f' ts = some r') : r = r' := by
  have h1 := parseAssign_mono_le t aops h (Nat.le_max_left f f')
  have h2 := parseAssign_mono_le t aops h' (Nat.le_max_right f f')
  rw [h1] at h2
  exact Option.some.inj h2

end CbModel.Ladder
