/-
  C19 — standard-library Vector, Queue and Map behave as sequence, FIFO and ordered map.
  Map: theorems about the functional model of stdlib/std/map.cb (CbModel/Avl.lean), proved in
  CbProofs/Avl*.lean and restated here.  Vector/Queue: laws of the abstract models (CbModel/Seq.lean).
-/
import CbModel.Seq
import CbProofs.AvlBound
namespace CbProps.C19
open CbModel.Seq
open CbModel.Avl

/-! ## Map<K,V>: the functional model of stdlib/std/map.cb -/

/-- insertion keeps the search order, the stored heights and the AVL balance -/
theorem insert_inv (t : Tree) (k v : Int) (h : Inv t) : Inv (insert t k v) := CbModel.Avl.insert_inv t k v h

/-- removal (in-order successor replacement, rebalancing on the way up) keeps them too -/
theorem remove_inv (t : Tree) (k : Int) (h : Inv t) : Inv (remove t k) := CbModel.Avl.remove_inv t k h

/-- the tree is a finite map: a lookup after an insertion … -/
theorem lookup_insert (t : Tree) (k v k' : Int) (h : BST t) :
    lookup (insert t k v) k' = if k' = k then some v else lookup t k' := CbModel.Avl.lookup_insert t k v k' h

/-- … and after a removal -/
theorem lookup_remove (t : Tree) (k k' : Int) (h : BST t) :
    lookup (remove t k) k' = if k' = k then none else lookup t k' := CbModel.Avl.lookup_remove t k k' h

theorem size_insert (t : Tree) (k v : Int) (h : BST t) :
    size (insert t k v) = if (lookup t k).isSome then size t else size t + 1 := CbModel.Avl.size_insert t k v h

theorem size_remove (t : Tree) (k : Int) (h : BST t) :
    size (remove t k) = if (lookup t k).isSome then size t - 1 else size t := CbModel.Avl.size_remove t k h

/-- an AVL tree of height h has at least fib(h+2) - 1 nodes -/
theorem fib_le_size (t : Tree) (h1 : HOK t) (h2 : Balanced t) : fib (height t + 2) ≤ size t + 1 :=
  CbModel.Avl.fib_le_size t h1 h2

theorem height_eq_real (t : Tree) (h : HOK t) : height t = realHeight t := CbModel.Avl.height_eq_real t h

/-- **height ≤ 1.44·log2(n+2)**, written without real numbers: 2^(25h) ≤ (n+2)^36 -/
theorem height_bound_144 (t : Tree) (h1 : HOK t) (h2 : Balanced t) (hs : size t < 2 ^ 63) :
    2 ^ (25 * height t) ≤ (size t + 2) ^ 36 := CbModel.Avl.height_bound_144 t h1 h2 hs

/-- **Every reachable Map state**: after any sequence of inserts and removes from the empty map the tree
    satisfies all invariants and the reported size equals the number of live nodes -/
theorem map_count_and_inv (ops : List MapOp) :
    let m := ops.foldl applyOp Map.empty
    Inv m.root ∧ m.count = size m.root := CbModel.Avl.map_count_and_inv ops

/-! ## Vector<T>, Queue<T>: laws of the abstract models -/

/-- `smaller()` leaves the elements in ascending order … -/
theorem sort_sorted (l : List Int) :
    List.Pairwise (fun a b => a ≤ b) (vstep l .sortAsc).1 := by
  have := List.pairwise_mergeSort (le := fun (a b : Int) => decide (a ≤ b))
    (by intro a b c h1 h2; simp at *; omega) (by intro a b; simp; omega) l
  simpa [vstep] using this

/-- … and keeps exactly the same elements (a permutation) -/
theorem sort_perm (l : List Int) : (vstep l .sortAsc).1.Perm l ∧ (vstep l .sortDesc).1.Perm l := by
  exact ⟨List.mergeSort_perm _ _, List.mergeSort_perm _ _⟩

/-- Queue is first-in-first-out: after pushing `xs` onto an empty queue, popping |xs| times yields `xs` in
    the same order and leaves the queue empty -/
theorem queue_fifo (xs : List Int) :
    let q := xs.foldl (fun l x => (qstep l (.push x)).1) []
    q = xs ∧ (qstep q .pop).2 = xs.head? ∧ (qstep q .pop).1 = xs.drop 1 := by
  have h : ∀ (acc : List Int), xs.foldl (fun l x => (qstep l (.push x)).1) acc = acc ++ xs := by
    induction xs with
    | nil => intro acc; simp
    | cons x r ih =>
      intro acc
      rw [List.foldl_cons, ih]
      simp [qstep]
  intro q
  have hq : q = xs := by
    show xs.foldl (fun l x => (qstep l (.push x)).1) [] = xs
    rw [h]; simp
  rw [hq]
  exact ⟨rfl, rfl, rfl⟩

end CbProps.C19
