import CbModel.TypeSubst
/- helper lemmas for CbProps/C11Subst.lean -/
namespace CbProofs.TypeSubst
open CbModel.TypeSubst

/-! ## identifier characters -/

theorem isIdChar_of_isIdStart {c : Char} (h : isIdStart c = true) : isIdChar c = true := by
  simp only [isIdStart, isIdChar, Char.isAlphanum, Bool.or_eq_true] at *
  rcases h with h | h
  · exact Or.inl (Or.inl h)
  · exact Or.inr h

/-! ## the identifier loop -/

theorem substIdentsF_nil (enumP : Str → Bool) (σ : TMap) (fuel : Nat) : substIdentsF enumP σ fuel [] = [] := by
  cases fuel <;> rfl

/-- one step of the loop on a symbol -/
theorem substIdentsF_sym (enumP : Str → Bool) (σ : TMap) (fuel : Nat) (c : Char) (rest : Str)
    (hc : isIdStart c = false) :
    substIdentsF enumP σ (fuel + 1) (c :: rest) = c :: substIdentsF enumP σ fuel rest := by
  simp [substIdentsF, hc]

/-- one step of the loop on a maximal identifier -/
theorem substIdentsF_ident (enumP : Str → Bool) (σ : TMap) (fuel : Nat) (c : Char) (cs rest : Str)
    (hc : isIdStart c = true) (hcs : cs.all isIdChar = true)
    (hrest : rest.takeWhile isIdChar = []) :
    substIdentsF enumP σ (fuel + 1) (c :: (cs ++ rest)) =
      substIdent enumP σ (c :: cs) ++ substIdentsF enumP σ fuel rest := by
  have hall : ∀ a, a ∈ cs → isIdChar a = true := by
    simpa [List.all_eq_true] using hcs
  have hdrop : rest.dropWhile isIdChar = rest := by
    cases rest with
    | nil => rfl
    | cons x xs =>
      by_cases hx : isIdChar x = true
      · simp [List.takeWhile, hx] at hrest
      · simp [List.dropWhile, hx]
  simp only [substIdentsF, hc, if_true]
  rw [List.takeWhile_append_of_pos hall, List.dropWhile_append_of_pos hall, hrest, hdrop, List.append_nil]

/-! ## splitOnChar -/

theorem splitOnChar_ne_nil (sep : Char) (s : Str) : splitOnChar sep s ≠ [] := by
  cases s with
  | nil => simp [splitOnChar]
  | cons c cs =>
    unfold splitOnChar
    split
    · simp
    · split <;> simp

theorem splitOnChar_cons_ne (sep c : Char) (cs p : Str) (ps : List Str) (h : c ≠ sep)
    (hcs : splitOnChar sep cs = p :: ps) :
    splitOnChar sep (c :: cs) = (c :: p) :: ps := by
  rw [splitOnChar, if_neg h, hcs]

/-- joining the parts with the separator gives the string back -/
theorem splitOnChar_join (sep : Char) (s : Str) :
    ((splitOnChar sep s).map (sep :: ·)).flatten = sep :: s := by
  induction s with
  | nil => simp [splitOnChar]
  | cons c cs ih =>
    unfold splitOnChar
    split
    · rename_i h
      subst h
      simp [ih]
    · split
      · rename_i p ps heq
        rw [heq] at ih
        simp at ih ⊢
        exact ih
      · rename_i heq
        exact absurd heq (splitOnChar_ne_nil sep cs)

theorem splitOnChar_no_sep (sep : Char) (p : Str) (h : sep ∉ p) : splitOnChar sep p = [p] := by
  induction p with
  | nil => rfl
  | cons c cs ih =>
    have hc : c ≠ sep := by intro e; apply h; simp [e]
    have hcs : sep ∉ cs := by intro e; apply h; simp [e]
    exact splitOnChar_cons_ne sep c _ _ _ hc (ih hcs)

theorem splitOnChar_append_sep (sep : Char) (p rest : Str) (h : sep ∉ p) :
    splitOnChar sep (p ++ sep :: rest) = p :: splitOnChar sep rest := by
  induction p with
  | nil => simp [splitOnChar]
  | cons c cs ih =>
    have hc : c ≠ sep := by intro e; apply h; simp [e]
    have hcs : sep ∉ cs := by intro e; apply h; simp [e]
    show splitOnChar sep (c :: (cs ++ sep :: rest)) = _
    exact splitOnChar_cons_ne sep c _ _ _ hc (ih hcs)

theorem splitOnChar_joined (sep : Char) (p : Str) (ps : List Str) (hp : sep ∉ p) (hps : ∀ q ∈ ps, sep ∉ q) :
    splitOnChar sep (p ++ (ps.map (sep :: ·)).flatten) = p :: ps := by
  induction ps generalizing p with
  | nil => simpa using splitOnChar_no_sep sep p hp
  | cons q r ih =>
    simp only [List.map_cons, List.flatten_cons, List.cons_append]
    rw [splitOnChar_append_sep sep p _ hp, ih q (hps q (by simp)) (fun x hx => hps x (by simp [hx]))]

/-! ## baseEnd -/

/-- the test of the base_end loop -/
def BaseTest (enumP : Str → Bool) (name : Str) (pos : Nat) : Prop :=
  1 ≤ pos ∧ name[pos]? = some '_' ∧ enumP (name.take pos) = true

theorem baseEndAux_sound (enumP : Str → Bool) (name : Str) (n : Nat) (acc : Option Nat) (e : Nat)
    (h : baseEndAux enumP name n acc = some e) : acc = some e ∨ BaseTest enumP name e := by
  induction n generalizing acc with
  | zero => exact Or.inl h
  | succ n ih =>
    simp only [baseEndAux] at h
    rcases ih _ h with h' | h'
    · split at h'
      · rename_i ht
        right
        cases h'
        exact ht
      · exact Or.inl h'
    · exact Or.inr h'

theorem baseEnd_sound (enumP : Str → Bool) (name : Str) (e : Nat) (h : baseEnd enumP name = some e) :
    BaseTest enumP name e := by
  rcases baseEndAux_sound enumP name _ _ e h with h' | h'
  · cases h'
  · exact h'

theorem baseEndAux_none_in_range (enumP : Str → Bool) (name : Str) (n : Nat) (acc : Option Nat)
    (h : ∀ q, name.length - n ≤ q → q < name.length → ¬ BaseTest enumP name q) :
    baseEndAux enumP name n acc = acc := by
  induction n generalizing acc with
  | zero => rfl
  | succ n ih =>
    simp only [baseEndAux]
    by_cases hlen : n + 1 ≤ name.length
    · have : ¬ BaseTest enumP name (name.length - (n + 1)) := h _ (Nat.le_refl _) (by omega)
      unfold BaseTest at this
      rw [if_neg this]
      exact ih acc (fun q h1 h2 => h q (by omega) h2)
    · have : ¬ (1 ≤ name.length - (n + 1)) := by omega
      rw [if_neg (fun hh => this hh.1)]
      exact ih acc (fun q h1 h2 => h q (by omega) h2)

theorem baseEndAux_last (enumP : Str → Bool) (name : Str) (n : Nat) (acc : Option Nat) (p : Nat)
    (hlo : name.length - n ≤ p) (hhi : p < name.length) (hp : BaseTest enumP name p)
    (hlast : ∀ q, p < q → q < name.length → ¬ BaseTest enumP name q) :
    baseEndAux enumP name n acc = some p := by
  induction n generalizing acc with
  | zero => omega
  | succ n ih =>
    simp only [baseEndAux]
    by_cases hpos : name.length - (n + 1) = p
    · rw [hpos]
      unfold BaseTest at hp
      rw [if_pos hp]
      exact baseEndAux_none_in_range enumP name n _ (fun q h1 h2 => hlast q (by omega) h2)
    · exact ih _ (by omega)

theorem take_cons_drop_succ (name : Str) (e : Nat) (c : Char) (h : name[e]? = some c) :
    name.take e ++ c :: name.drop (e + 1) = name := by
  induction name generalizing e with
  | nil => simp at h
  | cons x xs ih =>
    cases e with
    | zero => simp at h; simp [h]
    | succ e => simp at h; simp [ih e h]

/-! ## findChar / rfindChar -/

theorem findChar_none (c : Char) (s : Str) (h : c ∉ s) : findChar c s = none := by
  induction s with
  | nil => rfl
  | cons x xs ih =>
    have hx : x ≠ c := by intro e; apply h; simp [e]
    have hxs : c ∉ xs := by intro e; apply h; simp [e]
    simp [findChar, hx, ih hxs]

theorem findChar_append (c : Char) (n rest : Str) (h : c ∉ n) : findChar c (n ++ c :: rest) = some n.length := by
  induction n with
  | nil => simp [findChar]
  | cons x xs ih =>
    have hx : x ≠ c := by intro e; apply h; simp [e]
    have hxs : c ∉ xs := by intro e; apply h; simp [e]
    simp [findChar, hx, ih hxs]

theorem rfindChar_none (c : Char) (s : Str) (h : c ∉ s) : rfindChar c s = none := by
  induction s with
  | nil => rfl
  | cons x xs ih =>
    have hx : x ≠ c := by intro e; apply h; simp [e]
    have hxs : c ∉ xs := by intro e; apply h; simp [e]
    simp [rfindChar, hx, ih hxs]

theorem rfindChar_append (c : Char) (xs suffix : Str) (h : c ∉ suffix) :
    rfindChar c (xs ++ c :: suffix) = some xs.length := by
  induction xs with
  | nil => simp [rfindChar, rfindChar_none c suffix h]
  | cons x xs ih => simp [rfindChar, ih]

/-! ## trimBlank -/

/-- non-empty, neither starts nor ends with a blank -/
def Good (p : Str) : Prop :=
  p ≠ [] ∧ (∀ c, p.head? = some c → isBlank c = false) ∧ (∀ c, p.getLast? = some c → isBlank c = false)

theorem dropWhile_head_false (f : Char → Bool) (l : Str) (h : ∀ c, l.head? = some c → f c = false) :
    l.dropWhile f = l := by
  cases l with
  | nil => rfl
  | cons x xs => simp [List.dropWhile, h x rfl]

theorem trimBlank_good (p : Str) (h : Good p) : trimBlank p = some p := by
  obtain ⟨hne, hh, hl⟩ := h
  unfold trimBlank
  have h1 : p.dropWhile isBlank = p := dropWhile_head_false _ _ hh
  have h2 : p.reverse.dropWhile isBlank = p.reverse :=
    dropWhile_head_false _ _ (by rw [List.head?_reverse]; exact hl)
  simp only [h1, h2, List.reverse_reverse]
  cases p with
  | nil => exact absurd rfl hne
  | cons _ _ => rfl

theorem trimBlank_space_good (p : Str) (h : Good p) : trimBlank (' ' :: p) = some p := by
  have : trimBlank (' ' :: p) = trimBlank p := by
    unfold trimBlank
    have : isBlank ' ' = true := by decide
    simp [List.dropWhile, this]
  rw [this, trimBlank_good p h]

theorem good_bracketed (n j : Str) (hh : ∀ c, n.head? = some c → isBlank c = false) :
    Good (n ++ '<' :: (j ++ ['>'])) := by
  refine ⟨by simp, ?_, ?_⟩
  · intro c hc
    cases n with
    | nil =>
      simp at hc
      subst hc
      decide
    | cons x xs =>
      simp at hc
      exact hh c (by simp [hc])
  · intro c hc
    have : n ++ '<' :: (j ++ ['>']) = (n ++ '<' :: j) ++ ['>'] := by simp
    rw [this, List.getLast?_concat] at hc
    cases hc
    decide

/-! ## splitParams -/

def Plain (s : Str) : Prop := '<' ∉ s ∧ '>' ∉ s ∧ ',' ∉ s

theorem splitParams_lt (cs : Str) (d : Int) (cur : Str) (acc : List Str) :
    splitParams ('<' :: cs) d cur acc = splitParams cs (d + 1) ('<' :: cur) acc := by
  simp [splitParams]

theorem splitParams_gt (cs : Str) (d : Int) (cur : Str) (acc : List Str) :
    splitParams ('>' :: cs) d cur acc = splitParams cs (d - 1) ('>' :: cur) acc := by
  rw [splitParams, if_neg (by decide), if_pos rfl]

theorem splitParams_push (c : Char) (cs : Str) (d : Int) (cur : Str) (acc : List Str)
    (h1 : c ≠ '<') (h2 : c ≠ '>') (h3 : c ≠ ',' ∨ d ≠ 0) :
    splitParams (c :: cs) d cur acc = splitParams cs d (c :: cur) acc := by
  rw [splitParams, if_neg h1, if_neg h2, if_neg]
  intro ⟨ha, hb⟩
  rcases h3 with h3 | h3
  · exact h3 ha
  · exact h3 hb

theorem splitParams_comma (cs : Str) (cur t : Str) (acc : List Str) (h : trimBlank cur.reverse = some t) :
    splitParams (',' :: cs) 0 cur acc = splitParams cs 0 [] (t :: acc) := by
  rw [splitParams, if_neg (by decide), if_neg (by decide), if_pos ⟨rfl, rfl⟩, h]

/-- the splitter passes over `p` at any depth ≥ 0 without splitting, and comes back to the same depth -/
def Closed (p : Str) : Prop :=
  ∀ (d : Int) (rest cur : Str) (acc : List Str), 0 ≤ d →
    splitParams (p ++ rest) d cur acc = splitParams rest d (p.reverse ++ cur) acc

/-- the same at depth ≥ 1 (the inside of a bracket pair) -/
def Inner (p : Str) : Prop :=
  ∀ (d : Int) (rest cur : Str) (acc : List Str), 1 ≤ d →
    splitParams (p ++ rest) d cur acc = splitParams rest d (p.reverse ++ cur) acc

theorem closed_plain (p : Str) (h : Plain p) : Closed p := by
  intro d rest cur acc _
  induction p generalizing cur with
  | nil => rfl
  | cons c cs ih =>
    obtain ⟨h1, h2, h3⟩ := h
    have hc1 : c ≠ '<' := by intro e; apply h1; simp [e]
    have hc2 : c ≠ '>' := by intro e; apply h2; simp [e]
    have hc3 : c ≠ ',' := by intro e; apply h3; simp [e]
    have hcs : Plain cs := ⟨fun e => h1 (by simp [e]), fun e => h2 (by simp [e]), fun e => h3 (by simp [e])⟩
    show splitParams (c :: (cs ++ rest)) d cur acc = _
    rw [splitParams_push c _ d cur acc hc1 hc2 (Or.inl hc3), ih hcs]
    simp

theorem inner_of_closed (p : Str) (h : Closed p) : Inner p :=
  fun d rest cur acc hd => h d rest cur acc (by omega)

theorem inner_join (ps : List Str) (h : ∀ p ∈ ps, Closed p) : Inner (joinCommaSpace ps) := by
  induction ps with
  | nil => intro d rest cur acc _; rfl
  | cons a r ih =>
    cases r with
    | nil => exact inner_of_closed a (h a (by simp))
    | cons b r' =>
      intro d rest cur acc hd
      have ih' := ih (fun p hp => h p (by simp [hp])) d rest
      show splitParams ((a ++ ',' :: ' ' :: joinCommaSpace (b :: r')) ++ rest) d cur acc = _
      rw [List.append_assoc, h a (by simp) d _ cur acc (by omega)]
      show splitParams (',' :: ' ' :: (joinCommaSpace (b :: r') ++ rest)) d _ acc = _
      rw [splitParams_push ',' _ d _ acc (by decide) (by decide) (Or.inr (by omega)),
        splitParams_push ' ' _ d _ acc (by decide) (by decide) (Or.inl (by decide)),
        ih' _ acc hd]
      simp [joinCommaSpace]

theorem closed_app (n j : Str) (hn : Plain n) (hj : Inner j) : Closed (n ++ '<' :: (j ++ ['>'])) := by
  intro d rest cur acc hd
  rw [List.append_assoc, closed_plain n hn d _ cur acc hd]
  show splitParams ('<' :: ((j ++ ['>']) ++ rest)) d _ acc = _
  rw [splitParams_lt, List.append_assoc, hj (d + 1) _ _ acc (by omega)]
  show splitParams ('>' :: rest) (d + 1) _ acc = _
  rw [splitParams_gt]
  have : d + 1 - 1 = d := by omega
  rw [this]
  simp

theorem splitParams_top (ps : List Str) (p cur : Str) (acc : List Str)
    (h : ∀ q ∈ p :: ps, Closed q ∧ Good q) (hcur : cur = [] ∨ cur = [' ']) :
    splitParams (joinCommaSpace (p :: ps)) 0 cur acc = acc.reverse ++ p :: ps := by
  have htrim : trimBlank (p.reverse ++ cur).reverse = some p := by
    rcases hcur with rfl | rfl
    · simpa using trimBlank_good p (h p (by simp)).2
    · simpa using trimBlank_space_good p (h p (by simp)).2
  induction ps generalizing p cur acc with
  | nil =>
    have hc := (h p (by simp)).1 0 [] cur acc (by omega)
    rw [List.append_nil] at hc
    show splitParams p 0 cur acc = _
    rw [hc, splitParams]
    have hne : (p.reverse ++ cur).isEmpty = false := by
      have := (h p (by simp)).2.1
      cases p with
      | nil => exact absurd rfl this
      | cons _ _ => simp
    rw [hne, htrim]
    simp
  | cons q r ih =>
    show splitParams (p ++ ',' :: ' ' :: joinCommaSpace (q :: r)) 0 cur acc = _
    rw [(h p (by simp)).1 0 _ cur acc (by omega), splitParams_comma _ _ p acc htrim,
      splitParams_push ' ' _ 0 _ _ (by decide) (by decide) (Or.inl (by decide))]
    have hq : ∀ x ∈ q :: r, Closed x ∧ Good x := fun x hx => h x (by simp [hx])
    rw [ih q [' '] (p :: acc) hq (Or.inr rfl) (by simpa using trimBlank_space_good q (hq q (by simp)).2)]
    simp

theorem splitParams_joined (ps : List Str) (h : ∀ q ∈ ps, Closed q ∧ Good q) :
    splitParams (joinCommaSpace ps) 0 [] [] = ps := by
  cases ps with
  | nil => simp [joinCommaSpace, splitParams]
  | cons p r => simpa using splitParams_top r p [] [] h (Or.inl rfl)

/-! ## substGeneric -/

theorem substGeneric_leaf (σ : TMap) (fuel : Nat) (s : Str) (h : '<' ∉ s) :
    substGeneric σ (fuel + 1) s = substPart σ s := by
  simp [substGeneric, findChar_none '<' s h]

theorem substGeneric_app (σ : TMap) (fuel : Nat) (n : Str) (ps : List Str) (hn : '<' ∉ n)
    (hps : ∀ q ∈ ps, Closed q ∧ Good q) :
    substGeneric σ (fuel + 1) (n ++ '<' :: (joinCommaSpace ps ++ ['>']))
      = n ++ '<' :: (joinCommaSpace (ps.map (substGeneric σ fuel)) ++ ['>']) := by
  have hr : rfindChar '>' (n ++ '<' :: (joinCommaSpace ps ++ ['>']))
      = some (n.length + 1 + (joinCommaSpace ps).length) := by
    have := rfindChar_append '>' (n ++ '<' :: joinCommaSpace ps) [] (by simp)
    have hl : (n ++ '<' :: joinCommaSpace ps).length = n.length + 1 + (joinCommaSpace ps).length := by
      simp; omega
    rw [hl] at this
    simpa using this
  have hinner : ((n ++ '<' :: (joinCommaSpace ps ++ ['>'])).drop (n.length + 1)).take
      (n.length + 1 + (joinCommaSpace ps).length - n.length - 1) = joinCommaSpace ps := by
    rw [← List.drop_drop, List.drop_left' rfl]
    have : n.length + 1 + (joinCommaSpace ps).length - n.length - 1 = (joinCommaSpace ps).length := by omega
    rw [this]
    simp
  have hlt : n.length < n.length + 1 + (joinCommaSpace ps).length := by omega
  simp only [substGeneric, findChar_append '<' n _ hn, hr, hlt, if_true, hinner,
    splitParams_joined ps hps, List.take_left' rfl]

theorem substTypeString_bracketed (enumP : Str → Bool) (σ : TMap) (n j suffix : Str) (hs : '>' ∉ suffix) :
    substTypeString enumP σ ((n ++ '<' :: (j ++ ['>'])) ++ suffix)
      = substGeneric σ (((n ++ '<' :: (j ++ ['>'])) ++ suffix).length + 1) (n ++ '<' :: (j ++ ['>'])) ++ suffix := by
  have hr : rfindChar '>' ((n ++ '<' :: (j ++ ['>'])) ++ suffix) = some (n ++ '<' :: j).length := by
    have := rfindChar_append '>' (n ++ '<' :: j) suffix hs
    simpa using this
  have he : ((n ++ '<' :: (j ++ ['>'])) ++ suffix).isEmpty = false := by simp
  have hc : ((n ++ '<' :: (j ++ ['>'])) ++ suffix).contains '<' = true := by simp
  have hlen : (n ++ '<' :: j).length + 1 = (n ++ '<' :: (j ++ ['>'])).length := by simp; omega
  unfold substTypeString
  rw [he, hc, hr]
  simp only [Bool.false_eq_true, if_false, if_true]
  rw [hlen, List.take_left' rfl, List.drop_left' rfl]

theorem substTypeString_no_lt (enumP : Str → Bool) (σ : TMap) (s : Str) (h : '<' ∉ s) :
    substTypeString enumP σ s = substIdents enumP σ s := by
  unfold substTypeString
  cases s with
  | nil => rfl
  | cons c cs =>
    have : (c :: cs).contains '<' = false := by
      simpa using h
    rw [this]
    rfl

theorem lt_not_idChar : isIdChar '<' = false := by decide

theorem lt_not_mem_of_all_idChar (cs : Str) (h : cs.all isIdChar = true) : '<' ∉ cs := by
  intro hm
  have := (List.all_eq_true.mp h) '<' hm
  rw [lt_not_idChar] at this
  cases this

/-! ## joinCommaSpace lengths -/

theorem length_le_join_head (a : Str) (l : List Str) : a.length ≤ (joinCommaSpace (a :: l)).length := by
  cases l with
  | nil => simp [joinCommaSpace]
  | cons b r => simp [joinCommaSpace]

theorem join_tail_length_le (a : Str) (l : List Str) :
    (joinCommaSpace l).length ≤ (joinCommaSpace (a :: l)).length := by
  cases l with
  | nil => simp [joinCommaSpace]
  | cons b r => simp [joinCommaSpace]; omega

end CbProofs.TypeSubst
