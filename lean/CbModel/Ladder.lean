/-
  C02 — table-driven model of the expression parser's precedence ladder
  (src/frontend/recursive_parser/parsers/expression_parser.cpp: one function per level, each
  `left = next(); while (tok ∈ ops) { op; right = next(); left = bin(op,left,right) }`;
  RecursiveParser::parseTernary on top; parseUnary / primary at the bottom).
  The ladder itself (`List (List String)`, loosest level first) is regenerated from the source.
  Core Lean only.
-/
namespace CbModel.Ladder

inductive Tok where
  | op (s : String)      -- any operator symbol (binary or unary)
  | atom (s : String)    -- identifier / literal
  | lp | rp | q | colon
  deriving Repr, BEq, DecidableEq, Inhabited

inductive LExpr where
  | atom (s : String)
  | un (op : String) (a : LExpr)
  | bin (op : String) (a b : LExpr)
  | tern (c a b : LExpr)
  deriving Repr, BEq, DecidableEq, Inhabited

/-- a ladder: binary levels from the loosest (index 0, `||`) to the tightest (`* / %`),
    and the prefix operators -/
structure Table where
  levels : List (List String)
  unary : List String
  deriving Repr, BEq, DecidableEq

def Table.n (t : Table) : Nat := t.levels.length

def Table.opsAt (t : Table) (k : Nat) : List String := t.levels.getD k []

def isOpAt (t : Table) (k : Nat) (tk : Tok) : Option String :=
  match tk with
  | .op s => if s ∈ t.opsAt k then some s else none
  | _ => none

/-
  Parser levels:  0 = ternary,  1 .. n = binary level (k-1) of the table,  n+1 = unary / primary.
  All functions are structurally recursive on fuel.
-/
mutual
def parse (t : Table) : Nat → Nat → List Tok → Option (LExpr × List Tok)
  | 0, _, _ => none
  | fuel + 1, k, ts =>
    if k = 0 then
      -- parseTernary: condition at level 1, then optional `? a : b` (both branches at level 0)
      match parse t fuel 1 ts with
      | none => none
      | some (c, r) =>
        match r with
        | .q :: r1 =>
          match parse t fuel 0 r1 with
          | some (a, .colon :: r2) =>
            match parse t fuel 0 r2 with
            | some (b, r3) => some (.tern c a b, r3)
            | none => none
          | _ => none
        | _ => some (c, r)
    else if k ≤ t.n then
      -- a binary level: operand from the next level, then the loop
      match parse t fuel (k + 1) ts with
      | none => none
      | some (l, r) => loop t fuel k l r
    else
      -- parseUnary / primary
      match ts with
      | .op s :: r =>
        if s ∈ t.unary then
          match parse t fuel k r with
          | some (a, r1) => some (.un s a, r1)
          | none => none
        else none
      | .atom s :: r => some (.atom s, r)
      | .lp :: r =>
        match parse t fuel 0 r with
        | some (e, .rp :: r1) => some (e, r1)
        | _ => none
      | _ => none

/-- `while (tok ∈ ops k) { op; right = next(); left = bin(op, left, right) }` -/
def loop (t : Table) : Nat → Nat → LExpr → List Tok → Option (LExpr × List Tok)
  | 0, _, _, _ => none
  | fuel + 1, k, l, ts =>
    match ts with
    | tk :: r =>
      match isOpAt t (k - 1) tk with
      | some s =>
        match parse t fuel (k + 1) r with
        | some (b, r1) => loop t fuel k (.bin s l b) r1
        | none => none
      | none => some (l, ts)
    | [] => some (l, ts)
end

/-! ## printing -/

/-- index of the first table level that contains `op` -/
def opLevel (t : Table) (op : String) : Option Nat := t.levels.findIdx? (fun l => l.contains op)

/-- level of an expression's top node in the parser's numbering -/
def levelOf (t : Table) : LExpr → Nat
  | .atom _ => t.n + 1
  | .un _ _ => t.n + 1
  | .tern _ _ _ => 0
  | .bin op _ _ =>
    match opLevel t op with
    | some i => i + 1
    | none => t.n + 1

/-- minimal parentheses for a context that parses at level `ctx` -/
def printMin (t : Table) (ctx : Nat) : LExpr → List Tok
  | .atom s => [.atom s]
  | .un op a =>
      let body := .op op :: printMin t (t.n + 1) a
      if ctx ≤ t.n + 1 then body else [.lp] ++ body ++ [.rp]
  | .bin op a b =>
      let l := levelOf t (.bin op a b)
      let body := printMin t l a ++ [.op op] ++ printMin t (l + 1) b
      if ctx ≤ l then body else [.lp] ++ body ++ [.rp]
  | .tern c a b =>
      let body := printMin t 1 c ++ [.q] ++ printMin t 0 a ++ [.colon] ++ printMin t 0 b
      if ctx = 0 then body else [.lp] ++ body ++ [.rp]

/-- every operand parenthesised -/
def printFull (t : Table) : LExpr → List Tok
  | .atom s => [.atom s]
  | .un op a => [.op op, .lp] ++ printFull t a ++ [.rp]
  | .bin op a b => [.lp] ++ printFull t a ++ [.rp, .op op, .lp] ++ printFull t b ++ [.rp]
  | .tern c a b =>
      [.lp] ++ printFull t c ++ [.rp, .q, .lp] ++ printFull t a ++ [.rp, .colon, .lp] ++ printFull t b ++ [.rp]

/-- the specification's table (docs/spec.md): || ; && ; | ; ^ ; & ; == != ; < <= > >= ; << >> ; + - ; * / % -/
def specTable : Table :=
  { levels := [["||"], ["&&"], ["|"], ["^"], ["&"], ["==", "!="], ["<", "<=", ">", ">="], ["<<", ">>"],
               ["+", "-"], ["*", "/", "%"]],
    unary := ["!", "-", "~", "&", "*"] }

def parseTop (t : Table) (ts : List Tok) : Option LExpr :=
  match parse t (4 * ts.length * (t.n + 3) + 8) 0 ts with
  | some (e, []) => some e
  | _ => none

end CbModel.Ladder
