import CbModel.Render
namespace CbModel.Render

theorem digitVal_digitChar : ∀ d, d < 10 → digitVal (digitChar d) = d := by decide
theorem hexVal_hexChar : ∀ u d, d < 16 → hexVal (hexChar u d) = d := by decide
theorem digitChar_ne_minus : ∀ d, d < 10 → digitChar d ≠ '-' := by decide

theorem natDigits_lt (b : Nat) (hb : 2 ≤ b) (n : Nat) : ∀ d ∈ natDigits b hb n, d < b := by
  induction n using Nat.strongRecOn with
  | _ n ih =>
    unfold natDigits
    split
    · rename_i h; intro d hd; simp at hd; omega
    · rename_i h
      intro d hd
      simp only [List.mem_append, List.mem_singleton] at hd
      rcases hd with hd | rfl
      · exact ih (n / b) (Nat.div_lt_self (by omega) (by omega)) d hd
      · exact Nat.mod_lt _ (by omega)

theorem natDigits_ne_nil (b : Nat) (hb : 2 ≤ b) (n : Nat) : natDigits b hb n ≠ [] := by
  unfold natDigits; split <;> simp

/-- value of a digit list, most significant first -/
def ofDigits (b : Nat) (l : List Nat) : Nat := l.foldl (fun acc d => acc * b + d) 0

theorem ofDigits_append (b : Nat) (l : List Nat) (d : Nat) : ofDigits b (l ++ [d]) = ofDigits b l * b + d := by
  simp [ofDigits, List.foldl_append]

theorem ofDigits_natDigits (b : Nat) (hb : 2 ≤ b) (n : Nat) : ofDigits b (natDigits b hb n) = n := by
  induction n using Nat.strongRecOn with
  | _ n ih =>
    unfold natDigits
    split
    · simp [ofDigits]
    · rw [ofDigits_append, ih (n / b) (Nat.div_lt_self (by omega) (by omega))]
      exact Nat.div_add_mod' n b

theorem parseNat_map (l : List Nat) (h : ∀ d ∈ l, d < 10) :
    parseNat (l.map digitChar) = ofDigits 10 l := by
  unfold parseNat ofDigits
  rw [List.foldl_map]
  generalize (0 : Nat) = acc
  induction l generalizing acc with
  | nil => rfl
  | cons d r ih =>
    simp only [List.foldl_cons]
    rw [digitVal_digitChar d (h d List.mem_cons_self)]
    exact ih (fun x hx => h x (List.mem_cons_of_mem _ hx)) _

theorem parseHex_map (u : Bool) (l : List Nat) (h : ∀ d ∈ l, d < 16) :
    parseHex (l.map (hexChar u)) = ofDigits 16 l := by
  unfold parseHex ofDigits
  rw [List.foldl_map]
  generalize (0 : Nat) = acc
  induction l generalizing acc with
  | nil => rfl
  | cons d r ih =>
    simp only [List.foldl_cons]
    rw [hexVal_hexChar u d (h d List.mem_cons_self)]
    exact ih (fun x hx => h x (List.mem_cons_of_mem _ hx)) _

theorem parseNat_renderNat (n : Nat) : parseNat (renderNat n) = n := by
  unfold renderNat
  rw [parseNat_map _ (natDigits_lt 10 (by decide) n), ofDigits_natDigits]

theorem renderNat_head_ne_minus (n : Nat) : ∀ c r, renderNat n = c :: r → c ≠ '-' := by
  intro c r h
  unfold renderNat at h
  cases hd : natDigits 10 (by decide) n with
  | nil => exact absurd hd (natDigits_ne_nil _ _ _)
  | cons d ds =>
    rw [hd] at h
    simp only [List.map_cons, List.cons.injEq] at h
    rw [← h.1]
    exact digitChar_ne_minus d (natDigits_lt 10 (by decide) n d (by rw [hd]; exact List.mem_cons_self))

theorem renderNat_ne_nil (n : Nat) : renderNat n ≠ [] := by
  unfold renderNat
  simp [natDigits_ne_nil]

end CbModel.Render
