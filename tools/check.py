#!/usr/bin/env python3
"""Entry point of every registered check:  check.py <ID> [--tier quick|thorough] [--replay FILE]"""
import importlib, os, sys
sys.path.insert(0, os.path.dirname(os.path.abspath(__file__)))
import common


def main():
    a = common.parse_args(sys.argv[1:])
    mod = importlib.import_module("props." + a.pid.lower())
    os.chdir(common.ROOT)
    rc = mod.main(a)
    sys.stdout.flush()
    sys.exit(rc)


if __name__ == "__main__":
    main()
