/-
  C06 — destructors and defers run exactly once, LIFO, on every scope-exit path.
  `exec` mirrors the interpreter's two cleanup stacks; `sexec` is the structured specification
  (CbModel/Cleanup.lean).  Proofs: CbProofs/Cleanup.lean.
-/
import CbProofs.Cleanup
namespace CbProps.C06
open CbModel.Cleanup

/-- **Simulation, one statement on top of arbitrary enclosing frames.**  Same signal; the enclosing
    frames are untouched and the depth is restored (stacks balanced on every exit path: fall-through,
    return from any depth, break, continue); unless the statement returns, the innermost frames hold
    exactly the scope's registrations and the output grew by exactly the specification's events; when it
    returns, output plus what the innermost frames still owe equals the specification's events plus the
    scope's exit events. -/
theorem exec_refines (fs : Funcs) (fuel : Nat) (sk : Sk) (d x : List Nat) (Dr Xr : List (List Nat))
    (o : List Ev) :
    let r := exec fs fuel sk ⟨d :: Dr, x :: Xr, o⟩
    let q := sexec fs fuel sk ⟨d, x⟩
    r.1 = q.1 ∧ ∃ d' x', r.2.D = d' :: Dr ∧ r.2.X = x' :: Xr ∧
      (r.1 ≠ .ret → r.1 ≠ .oof → d' = q.2.1.defers ∧ x' = q.2.1.objs ∧ r.2.out = o ++ q.2.2) ∧
      (r.1 = .ret → r.2.out ++ pending d' x' = o ++ q.2.2 ++ exitScope q.2.1) :=
  CbModel.Cleanup.exec_refines fs fuel sk d x Dr Xr o

/-- **Whole programs**: the mechanism's trace IS the specification's trace (each scope's defers LIFO,
    then its destructors LIFO, inner scopes before outer ones), and both stacks end empty. -/
theorem run_refines_spec (fs : Funcs) (fuel : Nat) (h : (run fs fuel).1 ≠ .oof) :
    (run fs fuel).1 = (srun fs fuel).1 ∧ (run fs fuel).2.out = (srun fs fuel).2 ∧
    (run fs fuel).2.D = [] ∧ (run fs fuel).2.X = [] :=
  CbModel.Cleanup.run_refines_spec fs fuel h

/-- every constructed object is destroyed exactly once -/
theorem spec_destroyed_once (fs : Funcs) (fuel : Nat) (id : Nat) (h : (srun fs fuel).1 ≠ .oof) :
    ((srun fs fuel).2.filter (· == Ev.dtor id)).length = ((srun fs fuel).2.filter (· == Ev.ctor id)).length :=
  CbModel.Cleanup.spec_destroyed_once fs fuel id h

/-- leaving a callee never runs cleanup that belongs to its caller: a call statement leaves the caller's
    innermost frames (and everything below) exactly as they were -/
theorem callee_leaves_caller_frames (fs : Funcs) (fuel : Nat) (f : Nat) (d x : List Nat)
    (Dr Xr : List (List Nat)) (o : List Ev) (h : (exec fs fuel (.call f) ⟨d :: Dr, x :: Xr, o⟩).1 ≠ .oof) :
    (exec fs fuel (.call f) ⟨d :: Dr, x :: Xr, o⟩).2.D = d :: Dr ∧
    (exec fs fuel (.call f) ⟨d :: Dr, x :: Xr, o⟩).2.X = x :: Xr := by
  have hr := CbModel.Cleanup.exec_refines fs fuel (.call f) d x Dr Xr o
  simp only at hr
  obtain ⟨hsig, d', x', hD, hX, hnr, _⟩ := hr
  -- a call never signals `ret` to its caller
  have hne : (exec fs fuel (.call f) ⟨d :: Dr, x :: Xr, o⟩).1 ≠ .ret := by
    cases fuel with
    | zero => simp [exec]
    | succ n =>
      unfold exec
      simp only
      split
      · simp
      · split <;> simp
  obtain ⟨hd, hx, _⟩ := hnr hne h
  -- the specification's call leaves the scope ⟨d, x⟩ unchanged
  have hsc : (sexec fs fuel (.call f) ⟨d, x⟩).2.1 = ⟨d, x⟩ := by
    cases fuel with
    | zero => simp [sexec]
    | succ n =>
      unfold sexec
      simp only
      split
      · rfl
      · split <;> rfl
  rw [hsc] at hd hx
  simp only at hd hx
  rw [hD, hX, hd, hx]
  exact ⟨rfl, rfl⟩

end CbProps.C06
