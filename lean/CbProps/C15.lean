/-
  C15 — scheduling is deterministic round-robin; sleep never wakes early.
  Property theorems over the scheduler machine (CbModel/Sched.lean).  Statements are fixed; proofs only.
-/
import CbModel.Sched
import CbProofs.Sched
namespace CbProps.C15
open CbModel.Sched
open CbProofs.Sched

/-- **Bookkeeping invariant** of every reachable scheduler state: the ready queue has no duplicates and holds only
    valid, unfinished task ids; a task that is running (its step is on the control stack — possibly suspended
    inside a nested `await` loop) is not in the queue -/
theorem reach_inv (p : Prog) (c : Cfg) (h : Reach p c) : Inv c := by
  exact (reach_SInv p c h).toInv

/-- **Deterministic**: the next state is a function of the current one (the model is a function; stated for the
    record: two runs with the same fuel end in the same state, hence produce the same interleaving) -/
theorem deterministic (p : Prog) (fuel : Nat) (c : Cfg) : ∀ c1 c2, runFrom p fuel c = c1 → runFrom p fuel c = c2 → c1 = c2 := by
  intro c1 c2 h1 h2
  rw [← h1, ← h2]

/-- **FIFO discipline**: a transition only appends to the back of the ready queue, removes its head, or moves its
    head to the back (a blocked task that is skipped) -/
theorem queue_fifo (p : Prog) (c c' : Cfg) (h : stepCfg p c = some c') :
    (∃ l, c'.queue = c.queue ++ l) ∨ (∃ x, c.queue = x :: c'.queue) ∨
    (∃ x q, c.queue = x :: q ∧ c'.queue = q ++ [x]) := by
  obtain ⟨q, ts, stk, ms, mv, tr⟩ := c
  step_cases h
  all_goals try subst_vars
  all_goals first
    | (left; exact ⟨[], (List.append_nil _).symm⟩)
    | (left; exact ⟨_, rfl⟩)
    | (left; exact ⟨_, List.append_assoc _ _ _⟩)
    | (right; left; exact ⟨_, rfl⟩)
    | (right; right; exact ⟨_, _, rfl, rfl⟩)

/-- **No overtaking**: if `a` is ahead of `b` in the ready queue, then after any transition `a` is still ahead of
    `b`, or `a` was the head and has just had its turn (it ran, or it was found blocked and skipped) — `b` never
    gets its turn before `a` -/
theorem no_overtaking (p : Prog) (c c' : Cfg) (a b : Nat) (h : stepCfg p c = some c') (hb : Before a b c.queue) :
    Before a b c'.queue ∨ (∃ q, c.queue = a :: q) := by
  rcases queue_fifo p c c' h with ⟨l, hl⟩ | ⟨x, hx⟩ | ⟨x, q, hx, hq⟩
  · left
    obtain ⟨l1, l2, l3, h3⟩ := hb
    exact ⟨l1, l2, l3 ++ l, by rw [hl, h3]; simp⟩
  · obtain ⟨l1, l2, l3, h3⟩ := hb
    cases l1 with
    | nil =>
      right
      rw [hx] at h3 ⊢
      simp at h3
      rw [h3.1]
      exact ⟨_, rfl⟩
    | cons y l1 =>
      left
      rw [hx] at h3
      simp at h3
      exact ⟨l1, l2, l3, by rw [h3.2]; simp⟩
  · obtain ⟨l1, l2, l3, h3⟩ := hb
    cases l1 with
    | nil =>
      right
      rw [hx] at h3 ⊢
      simp at h3
      rw [h3.1]
      exact ⟨_, rfl⟩
    | cons y l1 =>
      left
      rw [hx] at h3
      simp at h3
      exact ⟨l1, l2, l3 ++ [x], by rw [hq, h3.2]; simp⟩

/-- **Round robin**: a task that suspends goes to the BACK of the queue: everything that was queued when it
    suspended is ahead of it.  (With no_overtaking: every other runnable task gets its turn before it runs again.) -/
theorem suspended_goes_to_back (p : Prog) (c c' : Cfg) (id : Nat) (st : List Frame)
    (hs : c.stack = Frame.task id :: st) (h : stepCfg p c = some c') (hq : id ∈ c'.queue) (hn : id ∉ c.queue) :
    ∀ x ∈ c.queue, Before x id c'.queue := by
  have key : ∃ l, c'.queue = c.queue ++ l := by
    obtain ⟨q, ts, stk, ms, mv, tr⟩ := c
    simp only at hs
    subst hs
    step_cases h
    all_goals first
      | exact ⟨[], (List.append_nil _).symm⟩
      | exact ⟨_, rfl⟩
      | exact ⟨_, List.append_assoc _ _ _⟩
  obtain ⟨l, hl⟩ := key
  intro x hx
  rw [hl] at hq ⊢
  have hidl : id ∈ l := by
    rcases List.mem_append.1 hq with h1 | h1
    · exact absurd h1 hn
    · exact h1
  obtain ⟨a1, a2, ha⟩ := List.append_of_mem hx
  obtain ⟨b1, b2, hb⟩ := List.append_of_mem hidl
  exact ⟨a1, a2 ++ b1, b2, by rw [ha, hb]; simp⟩

/-- **A task blocked in `await` does not run**: while its step is suspended inside the nested wait loop it is not
    in the ready queue, so no `run_one_cycle` can pick it -/
theorem awaiting_task_not_scheduled (p : Prog) (c : Cfg) (h : Reach p c) (id target : Nat)
    (hs : Frame.taskAwaitRet id target ∈ c.stack) : id ∉ c.queue := by
  exact (reach_inv p c h).running_not_queued id (Or.inr ⟨target, hs⟩)

/-- … and the wait loop is left only when the awaited task has completed (or nothing is left to run) -/
theorem wait_ends_when_target_finished (p : Prog) (c c' : Cfg) (target : Nat) (st : List Frame)
    (hs : c.stack = Frame.wait target :: st) (h : stepCfg p c = some c') (hpop : c'.stack = st) :
    (getTask c target).finished = true ∨ c.queue = [] := by
  obtain ⟨q, ts, stk, ms, mv, tr⟩ := c
  simp only at hs
  subst hs
  rw [getTask_eq]
  step_cases h
  · left; assumption
  · right; rename_i h1; simpa using h1
  · exact absurd hpop (by
      intro hh
      have := congrArg List.length hh
      simp at this
      omega)

/-- **sleep never wakes early**: a sleeping task is skipped as long as the clock is before its deadline, and the
    deadline is (time of the call) + ms -/
theorem sleep_never_early (callTime ms now : Nat) (h : staysAsleep now (sleepWake callTime ms) = false) :
    callTime + ms ≤ now := by
  unfold staysAsleep sleepWake at h
  have := of_decide_eq_false h
  omega

end CbProps.C15
