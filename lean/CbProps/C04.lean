/-
  C04 — integer-typed storage never holds a value outside its declared range.
  Stated on the reference semantics CbRef (CbModel/Ref/Eval.lean), for all programs and fuels.
-/
import CbProofs.RefInv
namespace CbProps.C04
open CbModel.Ref

/-- **Invariant.** Whatever statements, loops and (recursive) calls a program executes, from a state
    in which every integer cell (global, local, static, array element, struct member) lies inside its
    declared type's range, it only reaches such states. -/
theorem exec_preserves_range_inv (p : Prog) (fuel : Nat) (ss : List Stmt) (s : St) (h : RangeInv s) :
    RangeInv (execSs p fuel ss s).2 :=
  (allPres primOK_range p fuel).execSs ss s h

theorem call_preserves_range_inv (p : Prog) (fuel : Nat) (f : String) (args : List Int) (s : St)
    (h : RangeInv s) : RangeInv (callF p fuel f args s).2 :=
  (allPres primOK_range p fuel).callF f args s h

theorem eval_preserves_range_inv (p : Prog) (fuel : Nat) (e : Expr) (s : St) (h : RangeInv s) :
    RangeInv (evalE p fuel e s).2 :=
  (allPres primOK_range p fuel).evalE e s h

/-- the initial state satisfies the invariant, so every state of every run does -/
theorem init_range_inv : RangeInv initSt := by
  refine ⟨?_, ?_, ?_⟩ <;> intro kv hkv <;> simp [initSt] at hkv

/-- what is read from a cell satisfying the invariant is inside the cell's declared type -/
theorem read_in_range (c : Cell) (idxs : List Int) (v : Int) (hc : CellOK c)
    (h : readCell c idxs = .ok v) : InRange c.ty v := by
  cases c with
  | int t w cst =>
    cases idxs with
    | nil => simp only [readCell, Res.ok.injEq] at h; subst h; exact hc
    | cons i r => simp [readCell] at h
  | arr t dims cells cst =>
    cases idxs with
    | nil => simp [readCell] at h
    | cons i r =>
      simp only [readCell] at h
      split at h
      · rename_i w hget
        simp only [Res.ok.injEq] at h; subst h
        unfold CbModel.FlatIndex.arrayGet at hget
        split at hget
        · exact hc _ (List.mem_of_getElem? hget)
        · simp at hget
      · simp at h

/-- an out-of-range store is a range error (not kept, not wrapped) -/
theorem oob_store_is_error (t : Ty) (v : Int) (hb : t.base ≠ Base.bool) (h : ¬ InRange t v)
    (hs : 0 ≤ v ∨ t.uns = false) : storeChecked t v = .err .range := by
  unfold storeChecked
  split
  · rename_i hbb; exact absurd hbb hb
  · rw [if_neg (by rcases hs with h0 | hu <;> simp_all <;> omega), if_neg (show ¬ (t.range.1 ≤ v ∧ v ≤ t.range.2) from h)]

/-- a negative value stored to an unsigned target is clamped to 0 -/
theorem unsigned_negative_clamps (t : Ty) (v : Int) (hb : t.base ≠ Base.bool) (hu : t.uns = true)
    (hv : v < 0) : storeChecked t v = .ok 0 := by
  unfold storeChecked
  split
  · rename_i hbb; exact absurd hbb hb
  · rw [if_pos ⟨hu, hv⟩]

/-- in-range values — both boundaries included — are stored and read back exactly -/
theorem inrange_roundtrip (t : Ty) (v : Int) (hb : t.base ≠ Base.bool) (h : InRange t v)
    (hv : ¬ (t.uns = true ∧ v < 0)) :
    storeChecked t v = .ok v ∧
    writeCell (.int t 0 false) [] v = .ok (.int t v false) ∧ readCell (.int t v false) [] = .ok v := by
  have h1 : storeChecked t v = .ok v := by
    unfold storeChecked
    split
    · rename_i hbb; exact absurd hbb hb
    · rw [if_neg hv, if_pos (show t.range.1 ≤ v ∧ v ≤ t.range.2 from h)]
  refine ⟨h1, ?_, rfl⟩
  simp [writeCell, h1]

theorem boundaries_in_range (t : Ty) : InRange t t.range.1 ∧ InRange t t.range.2 := by
  obtain ⟨b, u⟩ := t
  cases b <;> cases u <;> simp [InRange, Ty.range]

/-! non-vacuity: a program that hits the range error, and one that stores both boundaries -/
example : storeChecked ⟨.tiny, false⟩ 128 = .err .range ∧ storeChecked ⟨.tiny, false⟩ 127 = .ok 127 ∧
    storeChecked ⟨.tiny, false⟩ (-128) = .ok (-128) ∧ storeChecked ⟨.int, true⟩ (-5) = .ok 0 := by
  refine ⟨?_, ?_, ?_, ?_⟩ <;> simp [storeChecked, Ty.range]

end CbProps.C04
