/-
  C19 — functional model of stdlib/std/map.cb (AVL tree with stored heights), following the Cb
  source function by function: get_height, update_height (= `mk`), get_balance, rotate_right,
  rotate_left, the rebalancing tail shared by insert_to_node / remove_from_node, the in-order
  successor removal, and the Map wrapper (root, count).  Core Lean only.
-/
namespace CbModel.Avl

inductive Tree where
  | nil
  | node (l : Tree) (k : Int) (v : Int) (h : Nat) (r : Tree)
  deriving Repr, BEq, DecidableEq, Inhabited

/-- get_height: the STORED height field -/
def height : Tree → Nat
  | .nil => 0
  | .node _ _ _ h _ => h

/-- a node whose height field has just been recomputed by update_height -/
def mk (l : Tree) (k v : Int) (r : Tree) : Tree := .node l k v (max (height l) (height r) + 1) r

/-- get_balance -/
def balance : Tree → Int
  | .nil => 0
  | .node l _ _ _ r => (height l : Int) - (height r : Int)

/-- rotate_right(y): x = y.left becomes the root; heights of y then x are updated -/
def rotR : Tree → Tree
  | .node (.node a xk xv _ b) yk yv _ c => mk a xk xv (mk b yk yv c)
  | t => t

/-- rotate_left(x): y = x.right becomes the root; heights of x then y are updated -/
def rotL : Tree → Tree
  | .node a xk xv _ (.node b yk yv _ c) => mk (mk a xk xv b) yk yv c
  | t => t

/-- the tail of insert_to_node / remove_from_node: update_height(node), then at most one (double)
    rotation depending on the balance factors -/
def rebalance (l : Tree) (k v : Int) (r : Tree) : Tree :=
  let t := mk l k v r
  let b := balance t
  if b > 1 then
    match l with
    | .nil => t
    | _ => if balance l < 0 then rotR (mk (rotL l) k v r) else rotR t
  else if b < -1 then
    match r with
    | .nil => t
    | _ => if balance r > 0 then rotL (mk l k v (rotR r)) else rotL t
  else t

/-- insert_to_node -/
def insert (t : Tree) (key val : Int) : Tree :=
  match t with
  | .nil => .node .nil key val 1 .nil
  | .node l k v h r =>
    if key = k then .node l k val h r
    else if key < k then rebalance (insert l key val) k v r
    else rebalance l k v (insert r key val)

/-- leftmost (key, value) of a non-empty tree -/
def minKV : Tree → Option (Int × Int)
  | .nil => none
  | .node .nil k v _ _ => some (k, v)
  | .node l _ _ _ _ => minKV l

/-- remove_from_node.  In the two-children case the in-order successor's data replace the node's
    data and the successor is removed from the right subtree by a recursive call. -/
def remove : Tree → Int → Tree
  | .nil, _ => .nil
  | .node l k v _ r, key =>
    if key < k then rebalance (remove l key) k v r
    else if key > k then rebalance l k v (remove r key)
    else
      match l with
      | .nil => r
      | _ =>
        match minKV r with
        | none => l                                        -- right child is null
        | some (sk, sv) => rebalance l sk sv (remove r sk)

/-- get / contains: iterative descent -/
def lookup : Tree → Int → Option Int
  | .nil, _ => none
  | .node l k v _ r, key => if key = k then some v else if key < k then lookup l key else lookup r key

def size : Tree → Nat
  | .nil => 0
  | .node l _ _ _ r => size l + 1 + size r

def toList : Tree → List (Int × Int)
  | .nil => []
  | .node l k v _ r => toList l ++ (k, v) :: toList r

/-- true height -/
def realHeight : Tree → Nat
  | .nil => 0
  | .node l _ _ _ r => max (realHeight l) (realHeight r) + 1

/-! ## the Map wrapper -/

structure Map where
  root : Tree
  count : Nat
  deriving Repr, Inhabited

def Map.empty : Map := ⟨.nil, 0⟩

def Map.insert (m : Map) (k v : Int) : Map :=
  let existed := (lookup m.root k).isSome
  ⟨CbModel.Avl.insert m.root k v, if existed then m.count else m.count + 1⟩

def Map.remove (m : Map) (k : Int) : Map :=
  if (lookup m.root k).isSome then ⟨CbModel.Avl.remove m.root k, m.count - 1⟩ else m

def Map.get (m : Map) (k d : Int) : Int := (lookup m.root k).getD d
def Map.contains (m : Map) (k : Int) : Bool := (lookup m.root k).isSome
def Map.clear (_ : Map) : Map := Map.empty

/-! ## invariants -/

def allKeys (p : Int → Prop) : Tree → Prop
  | .nil => True
  | .node l k _ _ r => allKeys p l ∧ p k ∧ allKeys p r

def BST : Tree → Prop
  | .nil => True
  | .node l k _ _ r => BST l ∧ BST r ∧ allKeys (· < k) l ∧ allKeys (k < ·) r

/-- every stored height field is the real height -/
def HOK : Tree → Prop
  | .nil => True
  | .node l _ _ h r => HOK l ∧ HOK r ∧ h = max (height l) (height r) + 1

def Balanced : Tree → Prop
  | .nil => True
  | .node l _ _ _ r => Balanced l ∧ Balanced r ∧ height l ≤ height r + 1 ∧ height r ≤ height l + 1

def Inv (t : Tree) : Prop := BST t ∧ HOK t ∧ Balanced t

def fib : Nat → Nat
  | 0 => 0
  | 1 => 1
  | n + 2 => fib n + fib (n + 1)

end CbModel.Avl
