/-
  C13 — match, `?`, try/checked: the decision logic.  Core Lean only.
-/
namespace CbModel.EnumM

/-- an enum value: variant index and payload (if the variant carries one) -/
structure EVal where
  variant : Nat
  payload : Option Int
  deriving Repr, BEq, DecidableEq, Inhabited

inductive Pat where
  | variant (i : Nat)
  | wildcard
  deriving Repr, BEq, DecidableEq, Inhabited

def Pat.matchesV (p : Pat) (v : EVal) : Bool :=
  match p with
  | .variant i => i == v.variant
  | .wildcard => true

/-- `match`: the index of the first arm whose pattern equals the scrutinee's variant (or `_`);
    `none` = no arm applies, which is an error -/
def firstArm (arms : List Pat) (v : EVal) : Option Nat := arms.findIdx? (·.matchesV v)

/-- the payload the selected arm binds: the scrutinee's payload, unchanged -/
def boundPayload (v : EVal) : Option Int := v.payload

/-! ## `?` -/

/-- a chain `x1 = e1?; mark; x2 = e2?; mark; …; return Ok(sum)`: each step yields Ok v or Err e -/
inductive Step where
  | ok (v : Int)
  | err (e : Int)
  deriving Repr, Inhabited

/-- result of the function and the number of `?` that were passed (= markers printed) -/
def chainQ : List Step → Int → (Except Int Int) × Nat
  | [], acc => (.ok acc, 0)
  | .ok v :: r, acc => let (res, n) := chainQ r (acc + v); (res, n + 1)
  | .err e :: _, _ => (.error e, 0)

/-- a nest of functions f1 .. fd, outermost first: level i either fails itself (`some e`: returns Err(e) before
    calling deeper) or runs `v = f(i+1)()?; print marker i; return Ok(v + add)`.  The innermost call returns
    Ok(base).  Result and the markers printed, in order (a marker is the number of levels below it). -/
def nestQ : List (Option Int × Int) → Int → (Except Int Int) × List Nat
  | [], base => (.ok base, [])
  | (some e, _) :: _, _ => (.error e, [])
  | (none, add) :: rest, base =>
    match nestQ rest base with
    | (.ok v, ms) => (.ok (v + add), ms ++ [rest.length])
    | (.error e, _) => (.error e, [])

/-! ## try / checked -/

inductive RtErr where
  | divzero | modzero | bounds | nullptr
  deriving Repr, BEq, DecidableEq, Inhabited

/-- the message the interpreter throws at the four kinds of site (`/`, `%`, index, dereference) -/
def RtErr.message : RtErr → String
  | .divzero => "Division by zero"
  | .modzero => "Modulo by zero"
  | .bounds => "Array index out of bounds"
  | .nullptr => "Null pointer dereference"

/-- the documented error class -/
def RtErr.cls : RtErr → String
  | .divzero => "DivisionByZeroError"
  | .modzero => "DivisionByZeroError"
  | .bounds => "IndexOutOfBoundsError"
  | .nullptr => "NullPointerError"

/-- a classifier in the shape of classify_runtime_error: an ordered list of rules; a rule fires when all of
    one of its alternatives' substrings occur in the lower-cased message -/
structure Rule where
  alts : List (List String)
  cls : String
  deriving Repr, BEq, DecidableEq

def contains (hay needle : String) : Bool :=
  let h := hay.toList; let n := needle.toList
  (List.range (h.length + 1)).any fun i => (h.drop i).take n.length == n

def lowerC (c : Char) : Char := if 'A' ≤ c ∧ c ≤ 'Z' then Char.ofNat (c.toNat + 32) else c

def classify (rules : List Rule) (msg : String) (dflt : String) : String :=
  let m := String.ofList (msg.toList.map lowerC)
  match rules.find? (fun r => r.alts.any fun alt => alt.all fun s => contains m s) with
  | some r => r.cls
  | none => dflt

/-- `try e` / `checked e` -/
def tryResult (rules : List Rule) (r : Except RtErr Int) : Except String Int :=
  match r with
  | .ok v => .ok v
  | .error e => .error (classify rules e.message "Custom")

end CbModel.EnumM
