/-
  C14 at full strength on the specification-level task semantics (CbModel/SchedSpec.lean): for EVERY schedule.
  Statements are fixed; proofs only.
-/
import CbModel.SchedSpec
import CbProofs.SchedSpec
namespace CbProps.C14Spec
open CbModel.SchedSpec

/-- one turn never loses, repeats or reorders anything: what the turn prints, followed by what the new
    continuation prints when run to its end, is what the old continuation prints when run to its end -/
theorem turn_preserves_meaning (fuel : Nat) (k : List Code) :
    (runToYield fuel k).1 ++ seqOutL (runToYield fuel k).2 = seqOutL k := by
  exact CbProofs.SchedSpec.runToYield_meaning fuel k

/-- **Every schedule.**  For every set of task bodies, every schedule (any order, any repetition, any starvation,
    any fuel per turn) and every task i: the output of task i so far, followed by what its remaining code prints
    when run alone, is exactly what its body prints when run alone — nothing skipped, nothing repeated, order kept,
    wherever its yields are placed (nested blocks, branches, loops) -/
theorem any_schedule_preserves_task_meaning (bodies : List (List Code)) (sched : List (Nat × Nat)) (i : Nat)
    (b : List Code) (hb : bodies[i]? = some b) :
    ∃ t, (runSchedule (start bodies) sched)[i]? = some t ∧ t.out ++ seqOutL t.cont = seqOutL b := by
  exact CbProofs.SchedSpec.inv_runSchedule bodies sched _ (CbProofs.SchedSpec.inv_start bodies) i b hb

/-- … so a task that has run to its end printed exactly its body's output -/
theorem finished_task_output (bodies : List (List Code)) (sched : List (Nat × Nat)) (i : Nat) (b : List Code)
    (t : TaskSt) (hb : bodies[i]? = some b) (ht : (runSchedule (start bodies) sched)[i]? = some t)
    (hend : t.cont = []) : t.out = seqOutL b := by
  obtain ⟨t', ht', hm⟩ := any_schedule_preserves_task_meaning bodies sched i b hb
  rw [ht] at ht'
  cases ht'
  rw [hend] at hm
  simpa [CbProofs.SchedSpec.seqOutL_nil] using hm

/-- tasks do not interfere: a turn of task j leaves every other task's state unchanged -/
theorem turn_other_task_unchanged (fuel : Nat) (ts : List TaskSt) (i j : Nat) (h : i ≠ j) :
    (turn fuel ts j)[i]? = ts[i]? := by
  exact CbProofs.SchedSpec.turn_other fuel ts i j h

/-- a turn stops exactly at a yield: when the continuation starts with `yield`, the turn prints nothing and
    resumes right after it — the statement after a yield is the next one executed, in whatever block it sits -/
theorem yield_resumes_at_next_statement (fuel : Nat) (r : List Code) :
    runToYield (fuel + 1) (.yieldS :: r) = ([], r) := by
  simp [runToYield]

/-- non-vacuity: a body with a yield inside an if inside a loop, interleaved with another task -/
example :
    let a : List Code := [.mark 1, .loop 2 [.ifS true [.mark 2, .yieldS, .mark 3], .mark 4], .mark 5]
    let b : List Code := [.mark 9, .yieldS, .mark 8]
    let ts := runSchedule (start [a, b]) [(0, 50), (1, 50), (0, 50), (0, 50), (1, 50), (0, 50)]
    ts.map (·.out) = [[1, 2, 3, 4, 2, 3, 4, 5], [9, 8]] ∧ seqOutL a = [1, 2, 3, 4, 2, 3, 4, 5] := by
  decide

end CbProps.C14Spec
