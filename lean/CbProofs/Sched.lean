/- helper lemmas for CbProps/C14.lean and CbProps/C15.lean -/
import CbModel.Sched
namespace CbProofs.Sched
open CbModel.Sched

/-! ## list-level task access -/

def dflt : Task := ⟨0, 0, 0, true, 0, [], [], false, 0⟩

def tget (l : List Task) (id : Nat) : Task := l.getD (id - 1) dflt
def tset (l : List Task) (id : Nat) (t : Task) : List Task := l.set (id - 1) t

theorem getTask_eq (c : Cfg) (id : Nat) : getTask c id = tget c.tasks id := rfl
theorem setTask_eq (c : Cfg) (id : Nat) (t : Task) :
    setTask c id t = { c with tasks := tset c.tasks id t } := rfl

@[simp] theorem tset_length (l : List Task) (id : Nat) (t : Task) : (tset l id t).length = l.length := by
  simp [tset]

theorem tget_tset (l : List Task) (j id : Nat) (t : Task) :
    tget (tset l j t) id = if j - 1 = id - 1 ∧ j - 1 < l.length then t else tget l id := by
  unfold tget tset
  by_cases h : j - 1 = id - 1
  · rw [h]
    by_cases h2 : id - 1 < l.length
    · simp [h2, List.getD_eq_getElem?_getD]
    · simp [h2, List.getD_eq_getElem?_getD]
  · simp [h, List.getD_eq_getElem?_getD, List.getElem?_set_ne h]

theorem tget_tset_self (l : List Task) (id : Nat) (t : Task) (h : id ≤ l.length) (h1 : 1 ≤ id) :
    tget (tset l id t) id = t := by
  rw [tget_tset]; simp; omega

theorem tget_tset_ne (l : List Task) (j id : Nat) (t : Task) (h1 : 1 ≤ j) (h2 : 1 ≤ id) (hne : j ≠ id) :
    tget (tset l j t) id = tget l id := by
  rw [tget_tset]
  have : ¬ (j - 1 = id - 1) := by omega
  simp [this]

theorem tget_append_old (l : List Task) (t : Task) (id : Nat) (h1 : 1 ≤ id) (h : id ≤ l.length) :
    tget (l ++ [t]) id = tget l id := by
  unfold tget
  have : id - 1 < l.length := by omega
  simp [List.getD_eq_getElem?_getD, List.getElem?_append_left this]

theorem tget_append_new (l : List Task) (t : Task) : tget (l ++ [t]) (l.length + 1) = t := by
  unfold tget
  simp [List.getD_eq_getElem?_getD]


/-! ## `finishStmt` in closed form -/

def finTask (p : Prog) (t : Task) : Task :=
  { t with idx := t.idx + 1, iter := 0,
           finished := if t.idx + 1 < (body p t).length then t.finished else true }

def finEv (p : Prog) (t : Task) (id : Nat) : Ev :=
  if t.idx + 1 < (body p t).length then .suspend id 0 else .done id

theorem finishStmt_eq (p : Prog) (c : Cfg) (id : Nat) :
    finishStmt p c id =
      { c with queue := c.queue ++ (if (tget c.tasks id).idx + 1 < (body p (tget c.tasks id)).length then [id] else []),
               tasks := tset c.tasks id (finTask p (tget c.tasks id)),
               stack := c.stack.tail,
               trace := finEv p (tget c.tasks id) id :: c.trace } := by
  unfold finishStmt
  simp only []
  split
  · rename_i h
    simp only [getTask_eq] at h
    simp [getTask_eq, setTask_eq, popFrame, emit, finTask, finEv, h]
  · rename_i h
    simp only [getTask_eq] at h
    simp [getTask_eq, setTask_eq, popFrame, emit, finTask, finEv, h]

@[simp] theorem finTask_idx (p : Prog) (t : Task) : (finTask p t).idx = t.idx + 1 := rfl
@[simp] theorem finTask_iter (p : Prog) (t : Task) : (finTask p t).iter = 0 := rfl
@[simp] theorem finTask_fn (p : Prog) (t : Task) : (finTask p t).fn = t.fn := rfl
@[simp] theorem finTask_result (p : Prog) (t : Task) : (finTask p t).result = t.result := rfl
@[simp] theorem finTask_slots (p : Prog) (t : Task) : (finTask p t).slots = t.slots := rfl
@[simp] theorem finTask_vals (p : Prog) (t : Task) : (finTask p t).vals = t.vals := rfl
@[simp] theorem finTask_finished (p : Prog) (t : Task) :
    (finTask p t).finished = if t.idx + 1 < (body p t).length then t.finished else true := rfl
@[simp] theorem finTask_body (p : Prog) (t : Task) : body p (finTask p t) = body p t := rfl

/-- case analysis on one transition: one goal per leaf of `stepCfg`, the result state as a record literal -/
syntax "step_cases " ident : tactic
macro_rules
  | `(tactic| step_cases $h:ident) => `(tactic|
      (unfold stepCfg at $h:ident
       simp only [] at $h:ident
       repeat' split at $h:ident
       all_goals first | (injection $h:ident with $h:ident; subst $h:ident) | contradiction | skip
       all_goals try simp only [finishStmt_eq, popFrame, emit, emits, setTask_eq, setTop, pushFrame, getTask_eq] at *))

/-! ## ids of the task frames on the control stack -/

def fid : Frame → Option Nat
  | .task id => some id
  | .taskAwaitRet id _ => some id
  | _ => none

def stackIds (st : List Frame) : List Nat := st.filterMap fid

@[simp] theorem stackIds_nil : stackIds [] = [] := rfl
@[simp] theorem stackIds_task (id : Nat) (st : List Frame) : stackIds (.task id :: st) = id :: stackIds st := rfl
@[simp] theorem stackIds_taskAwaitRet (id t : Nat) (st : List Frame) :
    stackIds (.taskAwaitRet id t :: st) = id :: stackIds st := rfl
@[simp] theorem stackIds_main (a b : Nat) (st : List Frame) : stackIds (.main a b :: st) = stackIds st := rfl
@[simp] theorem stackIds_mainAfter (a : Nat) (st : List Frame) : stackIds (.mainAfter a :: st) = stackIds st := rfl
@[simp] theorem stackIds_mainLoopPops (a b d : Nat) (st : List Frame) :
    stackIds (.mainLoopPops a b d :: st) = stackIds st := rfl
@[simp] theorem stackIds_mainAwaitRet (a b : Nat) (st : List Frame) :
    stackIds (.mainAwaitRet a b :: st) = stackIds st := rfl
@[simp] theorem stackIds_wait (a : Nat) (st : List Frame) : stackIds (.wait a :: st) = stackIds st := rfl
@[simp] theorem stackIds_pop1 (st : List Frame) : stackIds (.pop1 :: st) = stackIds st := rfl

theorem onStack_iff (id : Nat) (st : List Frame) : onStack id st ↔ id ∈ stackIds st := by
  unfold onStack stackIds
  simp only [List.mem_filterMap]
  constructor
  · rintro (h | ⟨t, h⟩)
    · exact ⟨_, h, rfl⟩
    · exact ⟨_, h, rfl⟩
  · rintro ⟨f, hf, hid⟩
    cases f <;> simp [fid] at hid
    · subst hid; exact Or.inl hf
    · subst hid; exact Or.inr ⟨_, hf⟩

/-- strengthened bookkeeping invariant: the ids on the stack together with the queue are pairwise distinct,
    valid and unfinished -/
structure SInv (c : Cfg) : Prop where
  nodup : (stackIds c.stack ++ c.queue).Nodup
  ok : ∀ id, id ∈ stackIds c.stack ∨ id ∈ c.queue →
        (1 ≤ id ∧ id ≤ c.tasks.length) ∧ (tget c.tasks id).finished = false

theorem SInv.toInv {c : Cfg} (h : SInv c) : Inv c := by
  have hn := h.nodup
  rw [List.nodup_append] at hn
  refine ⟨hn.2.1, ?_, ?_, ?_, ?_, ?_⟩
  · intro id hid; exact (h.ok id (Or.inr hid)).1
  · intro id hid; exact (h.ok id (Or.inr hid)).2
  · intro id hid hq
    rw [onStack_iff] at hid
    exact hn.2.2 id hid id hq rfl
  · intro id hid; rw [onStack_iff] at hid; exact (h.ok id (Or.inl hid)).1
  · intro id hid; rw [onStack_iff] at hid; exact (h.ok id (Or.inl hid)).2

theorem SInv_init : SInv initCfg := by
  constructor <;> simp [initCfg]

/-! ## the invariant on abstract data -/

def SI (S q : List Nat) (ts : List Task) : Prop :=
  (S ++ q).Nodup ∧ ∀ id, id ∈ S ∨ id ∈ q → (1 ≤ id ∧ id ≤ ts.length) ∧ (tget ts id).finished = false

theorem SInv_iff (c : Cfg) : SInv c ↔ SI (stackIds c.stack) c.queue c.tasks :=
  ⟨fun h => ⟨h.nodup, h.ok⟩, fun h => ⟨h.1, h.2⟩⟩

theorem SI_pop_stack {id S q ts} (h : SI (id :: S) q ts) : SI S q ts := by
  obtain ⟨h1, h2⟩ := h
  refine ⟨?_, fun x hx => h2 x ?_⟩
  · simp only [List.cons_append, List.nodup_cons] at h1; exact h1.2
  · simp only [List.mem_cons]; rcases hx with hx | hx <;> simp [hx]

theorem SI_pop_queue {h S q ts} (hh : SI S (h :: q) ts) : SI S q ts := by
  obtain ⟨h1, h2⟩ := hh
  refine ⟨?_, fun x hx => h2 x ?_⟩
  · simp only [List.nodup_append, List.nodup_cons, List.mem_cons] at h1 ⊢
    grind
  · simp only [List.mem_cons]; rcases hx with hx | hx <;> simp [hx]

theorem SI_run {h S q ts} (hh : SI S (h :: q) ts) : SI (h :: S) q ts := by
  obtain ⟨h1, h2⟩ := hh
  refine ⟨?_, fun x hx => h2 x ?_⟩
  · simp only [List.nodup_append, List.nodup_cons, List.mem_cons, List.cons_append, List.mem_append] at h1 ⊢
    grind
  · simp only [List.mem_cons] at hx ⊢; grind

theorem SI_finish {id S q ts} (t' : Task) (h : SI (id :: S) q ts) : SI S q (tset ts id t') := by
  obtain ⟨h1, h2⟩ := h
  simp only [List.cons_append, List.nodup_cons, List.mem_append] at h1
  refine ⟨h1.2, fun x hx => ?_⟩
  have hx' := h2 x (by simp only [List.mem_cons]; grind)
  have hid := h2 id (by simp)
  have hne : id ≠ x := by grind
  rw [tget_tset_ne _ _ _ _ hid.1.1 hx'.1.1 hne]
  simpa using hx'

theorem SI_finish_head {h S q ts} (t' : Task) (hh : SI S (h :: q) ts) : SI S q (tset ts h t') :=
  SI_finish t' (SI_run hh)

theorem SI_update {id S q ts} (t' : Task) (ht : t'.finished = false) (h : SI (id :: S) q ts) :
    SI (id :: S) q (tset ts id t') := by
  obtain ⟨h1, h2⟩ := h
  refine ⟨h1, fun x hx => ?_⟩
  have hx' := h2 x hx
  have hid := h2 id (by simp)
  by_cases hne : id = x
  · subst hne
    rw [tget_tset_self _ _ _ hid.1.2 hid.1.1]
    simpa using ⟨hid.1, ht⟩
  · rw [tget_tset_ne _ _ _ _ hid.1.1 hx'.1.1 hne]
    simpa using hx'

theorem SI_suspend {id S q ts} (h : SI (id :: S) q ts) : SI S (q ++ [id]) ts := by
  obtain ⟨h1, h2⟩ := h
  refine ⟨?_, fun x hx => h2 x ?_⟩
  · simp only [List.nodup_append, List.nodup_cons, List.mem_cons, List.cons_append, List.mem_append] at h1 ⊢
    grind
  · simp only [List.mem_cons, List.mem_append] at hx ⊢; grind

theorem SI_rotate {h S q ts} (hh : SI S (h :: q) ts) : SI S (q ++ [h]) ts :=
  SI_suspend (SI_run hh)

theorem SI_spawn {S q ts} (t : Task) (ht : t.finished = false) (h : SI S q ts) :
    SI S (q ++ [ts.length + 1]) (ts ++ [t]) := by
  obtain ⟨h1, h2⟩ := h
  have hnew : ∀ x, x ∈ S ∨ x ∈ q → x ≠ ts.length + 1 := fun x hx => by have := (h2 x hx).1; omega
  refine ⟨?_, fun x hx => ?_⟩
  · simp only [List.nodup_append, List.nodup_cons, List.mem_cons, List.mem_append] at h1 ⊢
    grind
  · by_cases hx' : x = ts.length + 1
    · subst hx'
      rw [tget_append_new]; simp [ht]
    · have hx2 : x ∈ S ∨ x ∈ q := by simp only [List.mem_append, List.mem_singleton] at hx; grind
      have := h2 x hx2
      rw [tget_append_old _ _ _ this.1.1 this.1.2]
      simp only [List.length_append, List.length_singleton]
      exact ⟨⟨this.1.1, by omega⟩, this.2⟩

theorem SI_finishStmt {id S q ts} (p : Prog) (h : SI (id :: S) q ts) :
    SI S (q ++ if (tget ts id).idx + 1 < (body p (tget ts id)).length then [id] else [])
      (tset ts id (finTask p (tget ts id))) := by
  have hid := h.2 id (by simp)
  split
  · rename_i hc
    exact SI_suspend (SI_update _ (by simp [hc, hid.2]) h)
  · simpa using SI_finish _ h

theorem SI_clear {S q ts} (h : SI S q ts) : SI [] q ts := by
  obtain ⟨h1, h2⟩ := h
  refine ⟨?_, fun x hx => h2 x ?_⟩
  · simp only [List.nodup_append] at h1; simpa using h1.2.1
  · simp at hx; exact Or.inr hx

theorem SI_top_unfinished {id S q ts} (h : SI (id :: S) q ts) : (tget ts id).finished = false :=
  (h.2 id (by simp)).2

theorem SInv_step (p : Prog) (c c' : Cfg) (hinv : SInv c) (h : stepCfg p c = some c') : SInv c' := by
  rw [SInv_iff] at hinv ⊢
  obtain ⟨q, ts, stk, ms, mv, tr⟩ := c
  simp only at hinv
  step_cases h
  all_goals try subst_vars
  all_goals simp only [List.tail_cons, stackIds_task, stackIds_taskAwaitRet, stackIds_main, stackIds_mainAfter,
    stackIds_mainLoopPops, stackIds_mainAwaitRet, stackIds_wait, stackIds_pop1, stackIds_nil] at hinv ⊢
  all_goals first
    | exact hinv
    | exact SI_pop_queue hinv
    | exact SI_finish_head _ hinv
    | exact SI_run hinv
    | exact SI_pop_stack hinv
    | exact SI_clear hinv
    | exact SI_finishStmt p hinv
    | exact SI_finish _ hinv
    | exact SI_spawn _ rfl hinv
    | exact SI_suspend (SI_update _ (SI_top_unfinished hinv) hinv)
    | exact SI_finishStmt p (SI_update _ (SI_top_unfinished hinv) hinv)
    | exact SI_finishStmt p (SI_update _ (SI_top_unfinished (SI_spawn _ rfl hinv)) (SI_spawn _ rfl hinv))
    | exact SI_rotate hinv
    | exact SI_update _ (SI_top_unfinished hinv) hinv
    | exact SI_update _ (SI_top_unfinished (SI_run hinv)) (SI_run hinv)
    | exact SI_finish _ (SI_update _ (SI_top_unfinished (SI_run hinv)) (SI_run hinv))

theorem reach_SInv (p : Prog) (c : Cfg) (h : Reach p c) : SInv c := by
  induction h with
  | init => exact SInv_init
  | step _ hs ih => exact SInv_step p _ _ ih hs

/-! ## output of one context -/

def outF (ctx : Nat) : Ev → Option Nat
  | .out c tag => if c = ctx then some tag else none
  | _ => none

theorem outsOf_eq (ctx : Nat) (tr : List Ev) : outsOf ctx tr = tr.reverse.filterMap (outF ctx) := by
  unfold outsOf
  congr 1

def evOut (ctx : Nat) (e : Ev) : List Nat := (outF ctx e).toList

theorem outsOf_nil (ctx : Nat) : outsOf ctx [] = [] := rfl

theorem outsOf_cons (ctx : Nat) (e : Ev) (tr : List Ev) : outsOf ctx (e :: tr) = outsOf ctx tr ++ evOut ctx e := by
  simp only [outsOf_eq, List.reverse_cons, List.filterMap_append, evOut]
  cases h : outF ctx e <;> simp [List.filterMap, h]

theorem outsOf_append (ctx : Nat) (es tr : List Ev) : outsOf ctx (es ++ tr) = outsOf ctx tr ++ outsOf ctx es := by
  simp only [outsOf_eq, List.reverse_append, List.filterMap_append]

theorem outsOf_rev_map_out_self (ctx : Nat) (tags : List Nat) :
    outsOf ctx (tags.map (Ev.out ctx)).reverse = tags := by
  simp only [outsOf_eq, List.reverse_reverse, List.filterMap_map]
  induction tags with
  | nil => rfl
  | cons a l ih => simp [outF, ih]

theorem outsOf_rev_map_out_ne (ctx c : Nat) (tags : List Nat) (h : c ≠ ctx) :
    outsOf ctx (tags.map (Ev.out c)).reverse = [] := by
  simp only [outsOf_eq, List.reverse_reverse, List.filterMap_map]
  induction tags with
  | nil => rfl
  | cons a l ih => simp [outF, ih, h]

@[simp] theorem evOut_out (ctx c tag : Nat) : evOut ctx (.out c tag) = if c = ctx then [tag] else [] := by
  simp only [evOut, outF]; split <;> rfl
@[simp] theorem evOut_spawn (ctx a b : Nat) : evOut ctx (.spawn a b) = [] := rfl
@[simp] theorem evOut_cycle (ctx : Nat) (q : List Nat) : evOut ctx (.cycle q) = [] := rfl
@[simp] theorem evOut_step (ctx a : Nat) : evOut ctx (.step a) = [] := rfl
@[simp] theorem evOut_suspend (ctx a b : Nat) : evOut ctx (.suspend a b) = [] := rfl
@[simp] theorem evOut_done (ctx a : Nat) : evOut ctx (.done a) = [] := rfl
@[simp] theorem evOut_awaitMain (ctx a : Nat) : evOut ctx (.awaitMain a) = [] := rfl
@[simp] theorem evOut_resumeMain (ctx a : Nat) : evOut ctx (.resumeMain a) = [] := rfl
@[simp] theorem evOut_awaitTask (ctx a b : Nat) : evOut ctx (.awaitTask a b) = [] := rfl
@[simp] theorem evOut_resumeTask (ctx a b : Nat) : evOut ctx (.resumeTask a b) = [] := rfl
@[simp] theorem evOut_yieldStmt (ctx a : Nat) : evOut ctx (.yieldStmt a) = [] := rfl
@[simp] theorem evOut_skip (ctx a b : Nat) : evOut ctx (.skip a b) = [] := rfl
@[simp] theorem evOut_giveUp (ctx a : Nat) : evOut ctx (.giveUp a) = [] := rfl
@[simp] theorem evOut_got (ctx a : Nat) (v : Int) : evOut ctx (.got a v) = [] := rfl
@[simp] theorem evOut_finEv (ctx : Nat) (p : Prog) (t : Task) (id : Nat) : evOut ctx (finEv p t id) = [] := by
  unfold finEv; split <;> rfl

/-! ## progressMarks -/

theorem pm_zero (b : List Stmt) (idx : Nat) : progressMarks b idx 0 = (b.take idx).flatMap stmtMarks := by
  unfold progressMarks; split <;> simp

theorem pm_loop (b : List Stmt) (idx iter n : Nat) (tags : List Nat) (h : b[idx]? = some (.loop n tags)) :
    progressMarks b idx iter = (b.take idx).flatMap stmtMarks ++ (List.replicate iter tags).flatten := by
  simp [progressMarks, h]

theorem take_succ_flatMap (b : List Stmt) (idx : Nat) (s : Stmt) (h : b[idx]? = some s) :
    (b.take (idx + 1)).flatMap stmtMarks = (b.take idx).flatMap stmtMarks ++ stmtMarks s := by
  rw [List.take_add_one, h]; simp

theorem body_congr (p : Prog) (t t' : Task) (h : t'.fn = t.fn) : body p t' = body p t := by
  unfold body; rw [h]

def IterOK (p : Prog) (t : Task) : Prop :=
  t.iter = 0 ∨ ∃ n tags, (body p t)[t.idx]? = some (.loop n tags) ∧ t.iter ≤ n

def TaskOK (p : Prog) (tr : List Ev) (t : Task) (id : Nat) : Prop :=
  outsOf id tr = progressMarks (body p t) t.idx t.iter ∧ IterOK p t

theorem TaskOK_congr {p tr tr' t t' id} (h : TaskOK p tr t id) (hfn : t'.fn = t.fn) (hidx : t'.idx = t.idx)
    (hiter : t'.iter = t.iter) (hout : outsOf id tr' = outsOf id tr) : TaskOK p tr' t' id := by
  unfold TaskOK IterOK at *
  rw [body_congr p t t' hfn, hidx, hiter, hout]
  exact h

theorem TaskOK_at_nonloop {p tr t id s} (h : TaskOK p tr t id) (hs : (body p t)[t.idx]? = some s)
    (hnl : ∀ n tags, s ≠ .loop n tags) :
    t.iter = 0 ∧ outsOf id tr = ((body p t).take t.idx).flatMap stmtMarks := by
  obtain ⟨h1, h2⟩ := h
  have h0 : t.iter = 0 := by
    rcases h2 with h2 | ⟨n, tags, h2, _⟩
    · exact h2
    · rw [hs] at h2; injection h2 with h2; exact absurd h2 (hnl n tags)
  refine ⟨h0, ?_⟩
  rw [h1, h0, pm_zero]

theorem TaskOK_at_loop {p tr t id n tags} (h : TaskOK p tr t id) (hs : (body p t)[t.idx]? = some (.loop n tags)) :
    t.iter ≤ n ∧ outsOf id tr = ((body p t).take t.idx).flatMap stmtMarks ++ (List.replicate t.iter tags).flatten := by
  obtain ⟨h1, h2⟩ := h
  refine ⟨?_, by rw [h1, pm_loop _ _ _ _ _ hs]⟩
  rcases h2 with h2 | ⟨n', tags', h2, h3⟩
  · omega
  · rw [hs] at h2; injection h2 with h2; injection h2 with h2 h4; omega

theorem TaskOK_fin {p tr' t id s} (hs : (body p t)[t.idx]? = some s)
    (hout : outsOf id tr' = ((body p t).take t.idx).flatMap stmtMarks ++ stmtMarks s) :
    TaskOK p tr' (finTask p t) id := by
  refine ⟨?_, Or.inl rfl⟩
  rw [finTask_body, finTask_idx, finTask_iter, pm_zero, take_succ_flatMap _ _ _ hs, hout]

/-- the output invariant on abstract data -/
def OI (p : Prog) (ts : List Task) (tr : List Ev) : Prop :=
  (∀ id, ts.length < id → outsOf id tr = []) ∧
  ∀ id, 1 ≤ id → id ≤ ts.length → TaskOK p tr (tget ts id) id

theorem OI_trace {p ts tr tr'} (h : OI p ts tr) (hout : ∀ id, 1 ≤ id → outsOf id tr' = outsOf id tr) :
    OI p ts tr' := by
  refine ⟨fun id hid => ?_, fun id h1 h2 => ?_⟩
  · rw [hout id (by omega)]; exact h.1 id hid
  · exact TaskOK_congr (h.2 id h1 h2) rfl rfl rfl (hout id h1)

theorem OI_step_task {p ts tr tr' j t'} (h : OI p ts tr) (hj1 : 1 ≤ j) (hj2 : j ≤ ts.length)
    (hout : ∀ id, 1 ≤ id → id ≠ j → outsOf id tr' = outsOf id tr) (ht : TaskOK p tr' t' j) :
    OI p (tset ts j t') tr' := by
  refine ⟨fun id hid => ?_, fun id h1 h2 => ?_⟩
  · rw [tset_length] at hid
    rw [hout id (by omega) (by omega)]; exact h.1 id hid
  · rw [tset_length] at h2
    by_cases hne : j = id
    · subst hne; rw [tget_tset_self _ _ _ hj2 hj1]; exact ht
    · rw [tget_tset_ne _ _ _ _ hj1 h1 hne]
      exact TaskOK_congr (h.2 id h1 h2) rfl rfl rfl (hout id h1 (fun e => hne e.symm))

theorem OI_spawn {p ts tr} (f : Nat) (h : OI p ts tr) : OI p (ts ++ [newTask f]) tr := by
  refine ⟨fun id hid => ?_, fun id h1 h2 => ?_⟩
  · simp only [List.length_append, List.length_singleton] at hid
    exact h.1 id (by omega)
  · simp only [List.length_append, List.length_singleton] at h2
    by_cases hn : id = ts.length + 1
    · subst hn
      rw [tget_append_new]
      refine ⟨?_, Or.inl rfl⟩
      rw [h.1 _ (by omega)]
      show [] = progressMarks _ 0 0
      rw [pm_zero]; simp
    · rw [tget_append_old _ _ _ h1 (by omega)]
      exact h.2 id h1 (by omega)

/-! ## frames waiting for the result of an `await` sit on an `await` statement -/

def aid : Frame → Option Nat
  | .taskAwaitRet id _ => some id
  | _ => none

def awaitIds (st : List Frame) : List Nat := st.filterMap aid

@[simp] theorem awaitIds_nil : awaitIds [] = [] := rfl
@[simp] theorem awaitIds_task (id : Nat) (st : List Frame) : awaitIds (.task id :: st) = awaitIds st := rfl
@[simp] theorem awaitIds_taskAwaitRet (id t : Nat) (st : List Frame) :
    awaitIds (.taskAwaitRet id t :: st) = id :: awaitIds st := rfl
@[simp] theorem awaitIds_main (a b : Nat) (st : List Frame) : awaitIds (.main a b :: st) = awaitIds st := rfl
@[simp] theorem awaitIds_mainAfter (a : Nat) (st : List Frame) : awaitIds (.mainAfter a :: st) = awaitIds st := rfl
@[simp] theorem awaitIds_mainLoopPops (a b d : Nat) (st : List Frame) :
    awaitIds (.mainLoopPops a b d :: st) = awaitIds st := rfl
@[simp] theorem awaitIds_mainAwaitRet (a b : Nat) (st : List Frame) :
    awaitIds (.mainAwaitRet a b :: st) = awaitIds st := rfl
@[simp] theorem awaitIds_wait (a : Nat) (st : List Frame) : awaitIds (.wait a :: st) = awaitIds st := rfl
@[simp] theorem awaitIds_pop1 (st : List Frame) : awaitIds (.pop1 :: st) = awaitIds st := rfl

theorem awaitIds_sub (st : List Frame) : ∀ x ∈ awaitIds st, x ∈ stackIds st := by
  intro x hx
  simp only [awaitIds, stackIds, List.mem_filterMap] at hx ⊢
  obtain ⟨f, hf, hx⟩ := hx
  refine ⟨f, hf, ?_⟩
  cases f <;> simp [aid] at hx
  subst hx; rfl

def IsAwait (p : Prog) (t : Task) : Prop := ∃ s, (body p t)[t.idx]? = some (.await s)

def AW (p : Prog) (A : List Nat) (ts : List Task) : Prop := ∀ id ∈ A, IsAwait p (tget ts id)

theorem AW_nil (p : Prog) (ts : List Task) : AW p [] ts := by intro id hid; cases hid

theorem AW_tail {p j A ts} (h : AW p (j :: A) ts) : AW p A ts :=
  fun id hid => h id (List.mem_cons_of_mem _ hid)

theorem AW_cons {p j A ts} (hj : IsAwait p (tget ts j)) (h : AW p A ts) : AW p (j :: A) ts := by
  intro id hid
  rcases List.mem_cons.1 hid with e | e
  · subst e; exact hj
  · exact h id e

theorem AW_tset_top {p j S q ts A} (l : List Task) (t' : Task) (hinv : SI (j :: S) q ts) (hA : ∀ x ∈ A, x ∈ S)
    (h : AW p A l) : AW p A (tset l j t') := by
  intro x hx
  have hxS := hA x hx
  have h1 := (hinv.2 x (Or.inl (List.mem_cons_of_mem _ hxS))).1.1
  have hj := (hinv.2 j (Or.inl (by simp))).1.1
  have hnd := hinv.1
  simp only [List.cons_append, List.nodup_cons, List.mem_append] at hnd
  have hne : j ≠ x := by rintro rfl; exact hnd.1 (Or.inl hxS)
  rw [tget_tset_ne _ _ _ _ hj h1 hne]
  exact h x hx

theorem AW_tset_head {p j S q ts A} (l : List Task) (t' : Task) (hinv : SI S (j :: q) ts) (hA : ∀ x ∈ A, x ∈ S)
    (h : AW p A l) : AW p A (tset l j t') :=
  AW_tset_top l t' (SI_run hinv) hA h

theorem AW_append {p S q ts A} (t : Task) (hinv : SI S q ts) (hA : ∀ x ∈ A, x ∈ S)
    (h : AW p A ts) : AW p A (ts ++ [t]) := by
  intro x hx
  have h1 := (hinv.2 x (Or.inl (hA x hx))).1
  rw [tget_append_old _ _ _ h1.1 h1.2]
  exact h x hx

theorem AW_step (p : Prog) (c c' : Cfg) (hinv : SInv c) (haw : AW p (awaitIds c.stack) c.tasks)
    (h : stepCfg p c = some c') : AW p (awaitIds c'.stack) c'.tasks := by
  rw [SInv_iff] at hinv
  obtain ⟨q, ts, stk, ms, mv, tr⟩ := c
  simp only at hinv haw ⊢
  step_cases h
  all_goals try subst_vars
  all_goals simp only [List.tail_cons, stackIds_task, stackIds_taskAwaitRet, stackIds_main, stackIds_mainAfter,
    stackIds_mainLoopPops, stackIds_mainAwaitRet, stackIds_wait, stackIds_pop1,
    awaitIds_task, awaitIds_taskAwaitRet, awaitIds_main, awaitIds_mainAfter,
    awaitIds_mainLoopPops, awaitIds_mainAwaitRet, awaitIds_wait, awaitIds_pop1, awaitIds_nil] at hinv haw ⊢
  all_goals first
    | exact haw
    | exact AW_nil _ _
    | exact AW_tset_head _ _ hinv (awaitIds_sub _) haw
    | exact AW_tset_top _ _ hinv (awaitIds_sub _) haw
    | exact AW_tset_top _ _ hinv (awaitIds_sub _) (AW_tail haw)
    | exact AW_tset_top _ _ hinv (awaitIds_sub _) (AW_tset_top _ _ hinv (awaitIds_sub _) (AW_tail haw))
    | exact AW_append _ hinv (awaitIds_sub _) haw
    | exact AW_tset_top _ _ hinv (awaitIds_sub _) (AW_tset_top _ _ hinv (awaitIds_sub _)
        (AW_append _ (SI_pop_stack hinv) (awaitIds_sub _) haw))
    | exact AW_cons ⟨_, by assumption⟩ haw
    | exact AW_tset_head _ _ hinv (awaitIds_sub _) (AW_tset_head _ _ hinv (awaitIds_sub _) haw)
    | skip
  -- await inside a task: the task record is updated (waiting flag), the statement is unchanged
  · rename_i hs
    have hj := (hinv.2 _ (Or.inl (List.mem_cons_self ..))).1
    refine AW_cons ?_ (AW_tset_top _ _ hinv (awaitIds_sub _) haw)
    rw [tget_tset_self _ _ _ hj.2 hj.1]
    exact ⟨_, hs⟩

theorem tset_tset (l : List Task) (j : Nat) (a b : Task) : tset (tset l j a) j b = tset l j b := by
  simp [tset]

theorem replicate_succ_flatten (k : Nat) (tags : List Nat) :
    (List.replicate (k + 1) tags).flatten = (List.replicate k tags).flatten ++ tags := by
  rw [List.replicate_succ']; simp

theorem TaskOK_loop_iter {p tr tr' t t' id n tags} (h : TaskOK p tr t id)
    (hs : (body p t)[t.idx]? = some (.loop n tags)) (hlt : t.iter < n)
    (hout : outsOf id tr' = outsOf id tr ++ tags) (hfn : t'.fn = t.fn) (hidx : t'.idx = t.idx)
    (hiter : t'.iter = t.iter + 1) : TaskOK p tr' t' id := by
  have h1 := (TaskOK_at_loop h hs).2
  unfold TaskOK IterOK
  rw [body_congr p t t' hfn, hidx, hiter]
  refine ⟨?_, Or.inr ⟨n, tags, hs, by omega⟩⟩
  rw [pm_loop _ _ _ _ _ hs, hout, h1, replicate_succ_flatten, List.append_assoc]

theorem OI_step (p : Prog) (c c' : Cfg) (hinv : SInv c) (haw : AW p (awaitIds c.stack) c.tasks)
    (hoi : OI p c.tasks c.trace) (h : stepCfg p c = some c') : OI p c'.tasks c'.trace := by
  rw [SInv_iff] at hinv
  obtain ⟨q, ts, stk, ms, mv, tr⟩ := c
  simp only at hinv haw hoi ⊢
  step_cases h
  all_goals try subst_vars
  all_goals simp only [stackIds_task, stackIds_taskAwaitRet, stackIds_main, stackIds_mainAfter,
    stackIds_mainLoopPops, stackIds_mainAwaitRet, stackIds_wait, stackIds_pop1,
    awaitIds_task, awaitIds_taskAwaitRet, awaitIds_main, awaitIds_mainAfter,
    awaitIds_mainLoopPops, awaitIds_mainAwaitRet, awaitIds_wait, awaitIds_pop1] at hinv haw ⊢
  all_goals first
    | exact hoi
    | (refine OI_trace hoi (fun id h1 => ?_)
       have h0 : ¬ (0 = id) := by omega
       simp [outsOf_cons, outsOf_append, outsOf_rev_map_out_ne _ _ _ h0, h0]; done)
    | skip
  -- pop1: empty step finishing a task whose index is past the end
  · have hj := (hinv.2 _ (Or.inr (List.mem_cons_self ..))).1
    rw [tset_tset]
    refine OI_step_task hoi hj.1 hj.2 (fun id _ _ => by simp [outsOf_cons]) ?_
    exact TaskOK_congr (hoi.2 _ hj.1 hj.2) rfl rfl rfl (by simp [outsOf_cons])
  -- pop1: the head starts its step (its waiting flag is cleared)
  · have hj := (hinv.2 _ (Or.inr (List.mem_cons_self ..))).1
    refine OI_step_task hoi hj.1 hj.2 (fun id _ _ => by simp [outsOf_cons]) ?_
    exact TaskOK_congr (hoi.2 _ hj.1 hj.2) rfl rfl rfl (by simp [outsOf_cons])
  -- mark
  · rename_i hs
    have hj := (hinv.2 _ (Or.inl (List.mem_cons_self ..))).1
    have hT := hoi.2 _ hj.1 hj.2
    refine OI_step_task hoi hj.1 hj.2 (fun id _ hne => ?_) (TaskOK_fin hs ?_)
    · have : ¬ (_ = id) := fun e => hne e.symm
      simp [outsOf_cons, this]
    · rw [← (TaskOK_at_nonloop hT hs (by intro n tags e; cases e)).2]
      simp [outsOf_cons, stmtMarks]
  -- yield
  · rename_i hs
    have hj := (hinv.2 _ (Or.inl (List.mem_cons_self ..))).1
    have hT := hoi.2 _ hj.1 hj.2
    have hnl := TaskOK_at_nonloop hT hs (by intro n tags e; cases e)
    refine OI_step_task hoi hj.1 hj.2 (fun id _ hne => by simp [outsOf_cons])
      (TaskOK_congr (TaskOK_fin (tr' := tr) hs ?_) rfl rfl hnl.1 (by simp [outsOf_cons]))
    rw [← hnl.2]; simp [stmtMarks]
  -- loop, one more iteration
  · rename_i hs hlt
    have hj := (hinv.2 _ (Or.inl (List.mem_cons_self ..))).1
    have hT := hoi.2 _ hj.1 hj.2
    refine OI_step_task hoi hj.1 hj.2 (fun id _ hne => ?_)
      (TaskOK_loop_iter hT hs hlt ?_ rfl rfl rfl)
    · have : ¬ (_ = id) := fun e => hne e.symm
      simp [outsOf_cons, outsOf_append, outsOf_rev_map_out_ne _ _ _ this]
    · simp [outsOf_cons, outsOf_append, outsOf_rev_map_out_self]
  -- loop finished
  · rename_i hs hge
    have hj := (hinv.2 _ (Or.inl (List.mem_cons_self ..))).1
    have hT := hoi.2 _ hj.1 hj.2
    have hl := TaskOK_at_loop hT hs
    refine OI_step_task hoi hj.1 hj.2 (fun id _ hne => by simp [outsOf_cons]) (TaskOK_fin hs ?_)
    have : (tget ts _).iter = _ := Nat.le_antisymm hl.1 (Nat.le_of_not_lt hge)
    simp only [outsOf_cons, evOut_finEv, List.append_nil, hl.2, stmtMarks, this]
  -- spawn inside a task
  · rename_i f slot hs
    have hj := (hinv.2 _ (Or.inl (List.mem_cons_self ..))).1
    have hT := hoi.2 _ hj.1 hj.2
    have hnl := TaskOK_at_nonloop hT hs (by intro n tags e; cases e)
    have hlen : ∀ j, j ≤ ts.length → j ≤ (ts ++ [newTask f]).length := by
      intro j hj; simp only [List.length_append, List.length_singleton]; omega
    rw [tget_tset_self _ _ _ (hlen _ hj.2) hj.1, tset_tset, tget_append_old _ _ _ hj.1 hj.2]
    refine OI_step_task (OI_spawn f hoi) hj.1 (hlen _ hj.2) (fun id _ _ => by simp [outsOf_cons])
      (TaskOK_fin (s := .spawn f slot) hs ?_)
    show _ = ((body p (tget ts _)).take (tget ts _).idx).flatMap stmtMarks ++ _
    rw [← hnl.2]; simp [outsOf_cons, stmtMarks]
  -- await inside a task: only the waiting flag changes
  · have hj := (hinv.2 _ (Or.inl (List.mem_cons_self ..))).1
    refine OI_step_task hoi hj.1 hj.2 (fun id _ _ => by simp [outsOf_cons]) ?_
    exact TaskOK_congr (hoi.2 _ hj.1 hj.2) rfl rfl rfl (by simp [outsOf_cons])
  -- show
  · rename_i hs
    have hj := (hinv.2 _ (Or.inl (List.mem_cons_self ..))).1
    have hT := hoi.2 _ hj.1 hj.2
    have hnl := TaskOK_at_nonloop hT hs (by intro n tags e; cases e)
    refine OI_step_task hoi hj.1 hj.2 (fun id _ hne => by simp [outsOf_cons]) (TaskOK_fin hs ?_)
    rw [← hnl.2]; simp [outsOf_cons, stmtMarks]
  -- ret
  · have hj := (hinv.2 _ (Or.inl (List.mem_cons_self ..))).1
    refine OI_step_task hoi hj.1 hj.2 (fun id _ _ => by simp [outsOf_cons]) ?_
    exact TaskOK_congr (hoi.2 _ hj.1 hj.2) rfl rfl rfl (by simp [outsOf_cons])
  -- return from the nested wait of an await
  · rename_i s hs
    have hj := (hinv.2 _ (Or.inl (List.mem_cons_self ..))).1
    have hT := hoi.2 _ hj.1 hj.2
    have hnl := TaskOK_at_nonloop hT hs (by intro n tags e; cases e)
    rw [tget_tset_self _ _ _ hj.2 hj.1, tset_tset]
    refine OI_step_task hoi hj.1 hj.2 (fun id _ _ => by simp [outsOf_cons])
      (TaskOK_fin (s := .await s) hs ?_)
    show _ = ((body p (tget ts _)).take (tget ts _).idx).flatMap stmtMarks ++ _
    rw [← hnl.2]; simp [outsOf_cons, stmtMarks]
  · rename_i hs
    obtain ⟨s, hs'⟩ := haw _ (List.mem_cons_self ..)
    exact absurd hs' (fun e => hs s e)
  -- spawn in main
  · refine OI_trace (OI_spawn _ hoi) (fun id h1 => by simp [outsOf_cons])

theorem reach_all (p : Prog) (c : Cfg) (h : Reach p c) :
    SInv c ∧ AW p (awaitIds c.stack) c.tasks ∧ OI p c.tasks c.trace := by
  induction h with
  | init =>
    refine ⟨SInv_init, ?_, ?_, ?_⟩
    · intro id hid; simp [initCfg] at hid
    · intro id _; rfl
    · intro id h1 h2; simp [initCfg] at h2; omega
  | step _ hs ih =>
    exact ⟨SInv_step p _ _ ih.1 hs, AW_step p _ _ ih.1 ih.2.1 hs, OI_step p _ _ ih.1 ih.2.1 ih.2.2 hs⟩

theorem pm_end (b : List Stmt) (iter : Nat) : progressMarks b b.length iter = b.flatMap stmtMarks := by
  simp [progressMarks]

end CbProofs.Sched
