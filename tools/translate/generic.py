#!/usr/bin/env python3
"""Translator for C11: generic_instantiation.cpp + ast.h -> lean/CbGen/Generic.lean
  * the format of generate_cache_key (opening, separator, closing character; every argument is appended)
  * the child-node fields of struct ASTNode and the ones clone_ast_node copies."""
import os, re, sys
SRC = os.environ.get("CB_VERIF_SRC", "/repo")
OUT = os.path.join(os.path.dirname(os.path.abspath(__file__)), "..", "..", "lean", "CbGen", "Generic.lean")


def fail(msg):
    print("TRANSLATOR-ERROR generic: " + msg)
    sys.exit(1)


def main():
    gi = open(os.path.join(SRC, "src/backend/interpreter/evaluator/functions/generic_instantiation.cpp")).read()
    m = re.search(r"std::string generate_cache_key\(const std::string &function_name,\s*const std::vector<std::string> &type_arguments\) \{(.*?)\n\}\n", gi, re.S)
    if not m:
        fail("generate_cache_key not found")
    body = " ".join(m.group(1).split())
    pat = (r'^std::string key = function_name \+ "(.)"; for \(size_t i = 0; i < type_arguments\.size\(\); \+\+i\) \{ '
           r'if \(i > 0\) \{ key \+= "(.)"; \} key \+= type_arguments\[i\]; \} key \+= "(.)"; return key;$')
    km = re.match(pat, body)
    if not km:
        fail("generate_cache_key has an unrecognised shape: " + body[:300])
    opn, sep, cls = km.groups()
    # the call site must build the key from the callee's name and ALL type arguments of the call
    ci = open(os.path.join(SRC, "src/backend/interpreter/evaluator/functions/call_impl.cpp")).read()
    sites = re.findall(r"generate_cache_key\(\s*([^,()]+?)\s*,\s*([^()]+?)\s*\)", ci + gi.replace(m.group(0), ""))
    if not sites:
        fail("no call site of generate_cache_key found")
    # struct ASTNode child fields
    ah = open(os.path.join(SRC, "src/common/ast.h")).read()
    sm = re.search(r"\nstruct ASTNode \{(.*?)\n\};", ah, re.S)
    if not sm:
        fail("struct ASTNode not found")
    sbody = re.sub(r"//[^\n]*", "", sm.group(1))
    # only the data members before the first constructor
    single = re.findall(r"std::unique_ptr<ASTNode>\s+(\w+)\s*;", sbody)
    vec = re.findall(r"std::vector<\s*std::unique_ptr<ASTNode>\s*>\s+(\w+)\s*;", sbody)
    if len(single) < 10 or len(vec) < 4:
        fail("too few ASTNode child fields recognised (%d, %d)" % (len(single), len(vec)))
    cm = re.search(r"std::unique_ptr<ASTNode> clone_ast_node\(const ASTNode \*node\) \{(.*?)\n\}\n", gi, re.S)
    if not cm:
        fail("clone_ast_node not found")
    cbody = re.sub(r"//[^\n]*", "", cm.group(1))
    cloned_single = set(re.findall(r"cloned->(\w+)\s*=\s*clone_ast_node\(\s*node->(\w+)\.get\(\)\s*\)", cbody))
    cloned_single = {a for a, b in cloned_single if a == b}
    cloned_vec = set()
    for vm in re.finditer(r"for \(const auto &(\w+) : node->(\w+)\) \{\s*cloned->(\w+)\.push_back\(\s*clone_ast_node\(\s*(\w+)\.get\(\)\s*\)\s*\);", cbody):
        if vm.group(2) == vm.group(3) and vm.group(1) == vm.group(4):
            cloned_vec.add(vm.group(2))
    # generic helper forms: clone_vec(node->f, cloned->f) / clone_child(...)
    for vm in re.finditer(r"(\w+)\(\s*node->(\w+)\s*,\s*cloned->(\w+)\s*\)", cbody):
        if vm.group(2) == vm.group(3):
            (cloned_vec if vm.group(2) in vec else cloned_single).add(vm.group(2))

    # ALL data members of struct ASTNode (declarations before the first constructor; static members excluded) and the ones
    # clone_ast_node assigns (`cloned->f ...`): a scalar flag that is not copied makes one construct behave differently inside
    # every instantiated generic body
    full = sm.group(1)
    ctor = re.search(r"\n\s*ASTNode\(", full)
    decl = re.sub(r"/\*.*?\*/", "", re.sub(r"//[^\n]*", "", full[:ctor.start()] if ctor else full), flags=re.S)
    all_fields = []
    for st in decl.split(";"):
        st = " ".join(st.split())
        if not st or "(" in st.split("=")[0]:
            continue
        lhs = st.split("=")[0].strip()
        fmm = re.match(r"^(.*?)(\w+)$", lhs)
        if fmm and fmm.group(1).strip() and not fmm.group(1).strip().startswith("static "):
            all_fields.append(fmm.group(2))
    if len(all_fields) < 100:
        fail("too few ASTNode data members recognised (%d)" % len(all_fields))
    clone_mentioned = sorted(set(re.findall(r"cloned->(\w+)", cbody)) & set(all_fields))

    # children the type substitution recurses into (for_each_child_node, or the old explicit recursion)
    fm = re.search(r"static void for_each_child_node\(ASTNode \*node, F &&fn\) \{(.*?)\n\}\n", gi, re.S)
    if fm:
        fb = re.sub(r"//[^\n]*", "", fm.group(1))
        subst_single = set(re.findall(r"node->(\w+)\.get\(\)", fb))
        subst_vec = set(re.findall(r"&node->(\w+)", fb))
    else:
        sm2 = re.search(r"void substitute_type_parameters\(\s*ASTNode \*node,.*?\n\}\n", gi, re.S)
        if not sm2:
            fail("substitute_type_parameters not found")
        sb = re.sub(r"//[^\n]*", "", sm2.group(0))
        subst_single = set(re.findall(r"substitute_type_parameters\(\s*node->(\w+)\.get\(\)", sb))
        subst_vec = set(re.findall(r"for \((?:const )?auto &\w+ : node->(\w+)\)", sb))

    def q(s):
        return '"' + s + '"'
    out = ["/- GENERATED by tools/translate/generic.py from generic_instantiation.cpp, call_impl.cpp and ast.h — do not edit -/",
           "import CbModel.Generic", "namespace CbGen", "",
           "def keyFormat : CbModel.Generic.KeyFormat := ⟨'%s', '%s', '%s'⟩" % (opn, sep, cls), "",
           "/-- child-node fields of struct ASTNode (single pointers, vectors) -/",
           "def astChildFields : List String := [%s]" % ", ".join(q(x) for x in single),
           "def astChildVectors : List String := [%s]" % ", ".join(q(x) for x in vec), "",
           "/-- the ones clone_ast_node copies -/",
           "def clonedFields : List String := [%s]" % ", ".join(q(x) for x in sorted(cloned_single)),
           "def clonedVectors : List String := [%s]" % ", ".join(q(x) for x in sorted(cloned_vec)), "",
           "/-- all non-static data members of struct ASTNode, and the ones clone_ast_node assigns -/",
           "def astAllFields : List String := [%s]" % ", ".join(q(x) for x in all_fields),
           "def cloneAssigned : List String := [%s]" % ", ".join(q(x) for x in clone_mentioned), "",
           "/-- the ones substitute_type_parameters recurses into -/",
           "def substFields : List String := [%s]" % ", ".join(q(x) for x in sorted(subst_single)),
           "def substVectors : List String := [%s]" % ", ".join(q(x) for x in sorted(subst_vec)), "",
           "end CbGen", ""]
    open(OUT, "w").write("\n".join(out))
    print("generic: key format %s %s %s; %d+%d child fields, %d+%d cloned; %d key call sites" % (
        opn, sep, cls, len(single), len(vec), len(cloned_single), len(cloned_vec), len(sites)))


main()
