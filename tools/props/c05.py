"""C05 — bounds checks in every dimension, row-major addressing.

Theorems: lean/CbProps/C05.lean about `flatIndex` (mirror of Variable::calculate_flat_index).
Tie: (a) in-process: calculate_flat_index vs flatIndex, exhaustive over all shapes of <=3 dims with
extents 1..5 and all index tuples in [-2, extent+2]; (b) end-to-end: access sequences through every
access path against the model's flat store (cbdriver c05seq).
"""
import itertools, json, os
import common
from common import Rng, esc

PID = "C05"
THEOREMS = {"CbProps.C05": ["CbProps.C05." + t for t in [
    "flat_row_major", "flat_ok_iff", "flat_lt_size", "flat_injective", "flat_surjective",
    "rejected_store_no_state", "get_set"]]}

PATHS = ["local", "global", "param", "member", "pointer", "checked", "try", "double", "long", "short"]


def shapes(maxd=3, maxe=5):
    for d in range(1, maxd + 1):
        for s in itertools.product(range(1, maxe + 1), repeat=d):
            yield list(s)


def tuples(shape, lo=-2, hi=2):
    return itertools.product(*[range(lo, e + hi + 1) for e in shape])


def size(shape):
    n = 1
    for e in shape:
        n *= e
    return n


def init_cells(shape):
    return [7 + 3 * k for k in range(size(shape))]


def in_range(shape, idx):
    return len(idx) == len(shape) and all(0 <= i < e for i, e in zip(idx, shape))


# ------------------------------------------------------------------ rendering Cb programs

def ty(shape):
    return "int" + "".join("[%d]" % e for e in shape)


def render(shape, path, ops, use_vars):
    """ops: list of ('g', idx) | ('s', idx, v).  The program prints one line per get, then (if it
    survives) the marker DUMP and every cell in row-major order."""
    nd = len(shape)
    T = ty(shape)
    L = []
    acc = {"local": "a", "global": "a", "param": "a", "member": "s.a", "pointer": "a", "checked": "a", "try": "a", "double": "a", "long": "a", "short": "a"}[path]
    if path == "double":
        # a local array of double; the model's integer value v is stored as v + 0.5
        T = "double" + T[3:]
    if path in ("long", "short"):
        # the same accesses on a local array of another integer element type (its own store / load code path)
        T = path + T[3:]
    ivars = ", ".join("int i%d" % k for k in range(nd))
    iuse = "".join("[i%d]" % k for k in range(nd))
    if path == "member":
        L.append("struct S { %s a; int k; };" % T)
    if path == "global":
        L.append("%s a;" % T)
    if path == "param":
        L.append("void rd(%s a, %s) { println(a%s); }" % (T, ivars, iuse))
        L.append("void wr(%s a, %s, int v) { a%s = v; }" % (T, ivars, iuse))
    if path in ("checked", "try"):
        L.append("Result<int, RuntimeError> rd(%s a, %s) { return %s a%s; }" % (T, ivars, path, iuse))
        L.append("void show(Result<int, RuntimeError> r) {\n    match (r) {\n        Ok(x) => { println(x); }\n"
                 "        Err(e) => { println(\"E\"); }\n    }\n}")
    L.append("int main() {")
    if path == "member":
        L.append("    S s;")
    elif path != "global":
        L.append("    %s a;" % T)
    # initialise every cell with 7+3*flat
    ind = "    "
    flat = "0"
    for k in range(nd):
        L.append(ind * (k + 1) + "for (int j%d = 0; j%d < %d; j%d++) {" % (k, k, shape[k], k))
    flat = " + ".join("j%d * %d" % (k, size(shape[k + 1:])) for k in range(nd))
    L.append(ind * (nd + 1) + "%s%s = %s + 3 * (%s);" % (acc, "".join("[j%d]" % k for k in range(nd)), "7.5" if path == "double" else "7", flat))
    for k in reversed(range(nd)):
        L.append(ind * (k + 1) + "}")
    L.append("    int t = 0;")
    if path == "pointer":
        L.append("    int* p = &a[0];")
    vn = 0
    for op in ops:
        idx = op[1]
        if use_vars or any(i < 0 for i in idx):
            names = []
            for i in idx:
                L.append("    int x%d = %d;" % (vn, i))
                names.append("x%d" % vn)
                vn += 1
        else:
            names = [str(i) for i in idx]
        sub = "".join("[%s]" % n for n in names)
        if path == "pointer":
            k = names[0]
            L.append("    p = &a[0];")
            L.append("    p = p + %s;" % k if not k.startswith("-") else "    p = p - %s;" % k[1:])
            if op[0] == "g":
                L.append("    println(*p);")
            else:
                L.append("    *p = %d;" % op[2])
        elif path == "param":
            if op[0] == "g":
                L.append("    rd(a, %s);" % ", ".join(names))
            else:
                L.append("    wr(a, %s, %d);" % (", ".join(names), op[2]))
        elif path in ("checked", "try") and op[0] == "g":
            L.append("    show(rd(a, %s));" % ", ".join(names))
        else:
            if op[0] == "g":
                L.append("    println(%s%s);" % (acc, sub))
            else:
                L.append(("    %s%s = %s;" % (acc, sub, repr(op[2] + 0.5))) if path == "double" else ("    %s%s = %d;" % (acc, sub, op[2])))
    L.append('    println("DUMP");')
    for k in range(nd):
        L.append(ind * (k + 1) + "for (int j%d = 0; j%d < %d; j%d++) {" % (k, k, shape[k], k))
    L.append(ind * (nd + 1) + "println(%s%s);" % (acc, "".join("[j%d]" % k for k in range(nd))))
    for k in reversed(range(nd)):
        L.append(ind * (k + 1) + "}")
    L.append("    return 0;")
    L.append("}")
    return "\n".join(L) + "\n"


def model_line(shape, path, ops):
    mode = "checked" if path in ("checked", "try") else "plain"
    o = ";".join(("g " + " ".join(map(str, op[1]))) if op[0] == "g" else
                 ("s " + " ".join(map(str, op[1])) + " " + str(op[2])) for op in ops)
    return "\t".join([mode, " ".join(map(str, shape)), " ".join(map(str, init_cells(shape))), o])


def expected(model_out):
    """(stdout, exit class) predicted by the model"""
    vals, st, cells = model_out.split("|")
    lines = [x for x in vals.split(",") if x != ""]
    if st == "ok":
        lines.append("DUMP")
        lines += cells.split(" ") if cells else []
        return "".join(l + "\n" for l in lines), "ok"
    return "".join(l + "\n" for l in lines), "error"


def gen_e2e(seed, tier, gates=()):
    """yields (shape, path, ops, use_vars)"""
    r = Rng(seed, 51)
    quick = tier == "quick"
    shp = list(shapes())
    # (1) checked/try reads: every index tuple of a sample of shapes (all shapes in thorough)
    sel = shp if not quick else [s for s in shp if r.chance(12)] + [[5], [2, 3], [3, 1, 2]]
    for s in sel:
        tl = list(tuples(s))
        for path in ("checked", "try"):
            for k in range(0, len(tl), 120):
                yield s, path, [("g", list(t)) for t in tl[k:k + 120]], True
    # (2) plain paths: in-range prefix then one probing access (OOB in exactly one dimension mostly)
    n = 900 if quick else 40000
    for _ in range(n):
        s = r.choice(shp)
        path = r.choice(["local", "global", "param", "member", "pointer", "double", "long", "short"])
        if path == "pointer":
            s = [r.range(1, 5)]
        if path == "member" and "member3d" in gates and len(s) > 2:
            s = s[:2]
        if path == "member" and "member2d" in gates and len(s) > 1:
            s = s[:1]
        ops = []
        for _ in range(r.range(0, 6)):
            idx = [r.below(e) for e in s]
            ops.append(("g", idx) if r.chance(50) else ("s", idx, r.range(-1000, 1000)))
        if r.chance(85):
            idx = [r.below(e) for e in s]
            for _ in range(1 if r.chance(80) else 2):
                d = r.below(len(s))
                idx[d] = r.choice([-2, -1, s[d], s[d] + 1, s[d] + 2])
            ops.append(("g", idx) if r.chance(50) else ("s", idx, r.range(-1000, 1000)))
            ops.append(("g", [0] * len(s)))   # must not be reached
        yield s, path, ops, r.chance(60)


def extra_cases():
    """access forms outside the flat-store model's paths, with the oracle the property states directly: an index tuple
    inside its dimensions yields that cell, any other tuple stops the program before anything after "start" is printed"""
    cases = []
    FID = "aggregate_element_paths_unchecked"

    def add(cid, decls, body, show, ok, val, finding=None, pre=""):
        prog = pre + "int main() {\n" + decls + "    println(\"start\");\n" + body + "    println(%s);\n    println(\"END\");\n    return 0;\n}\n" % show
        c = {"id": cid, "program": prog, "expect_class": "ok" if ok else "error",
             "expect_stdout": ("start\n%s\nEND\n" % val) if ok else "start\n"}
        if finding and not ok:
            c["finding"] = finding
        cases.append(c)

    m2 = "    int[2][3] m = [[10, 11, 12], [20, 21, 22]];\n"
    g2 = "int[2][3] gm = [[10, 11, 12], [20, 21, 22]];\n"
    for i in range(-1, 3):
        for j in range(-1, 5):
            ok = 0 <= i < 2 and 0 <= j < 3
            val = 10 * (i + 1) + j
            add("addr-local-%d-%d" % (i, j), m2, "    int* p = &m[%d][%d];\n" % (i, j), "*p", ok, val)
            add("addr-var-%d-%d" % (i, j), m2 + "    int i = %d;\n    int j = %d;\n" % (i, j), "    int* p = &m[i][j];\n", "*p", ok, val)
            add("addr-global-%d-%d" % (i, j), "", "    int* p = &gm[%d][%d];\n" % (i, j), "*p", ok, val, pre=g2)
            add("addr-write-%d-%d" % (i, j), m2, "    int* p = &m[%d][%d];\n    *p = 77;\n" % (i, j),
                "m[%d][%d]" % (max(0, min(i, 1)), max(0, min(j, 2))), ok, 77)
            add("addr-param-%d-%d" % (i, j), m2, "    int v = peek(m, %d, %d);\n" % (i, j), "v", ok, val,
                pre="int peek(int[2][3] q, int i, int j) {\n    int* p = &q[i][j];\n    return *p;\n}\n")
    m3 = "    int[2][2][2] c = [[[1, 2], [3, 4]], [[5, 6], [7, 8]]];\n"
    for t in [(0, 0, 0), (1, 1, 1), (0, 2, 0), (0, 0, 2), (1, -1, 0), (0, 1, -1), (2, 0, 0), (-1, 1, 1), (0, 3, 1)]:
        ok = all(0 <= x < 2 for x in t)
        add("addr-3d-%d-%d-%d" % t, m3, "    int* p = &c[%d][%d][%d];\n" % t, "*p", ok, 1 + t[0] * 4 + t[1] * 2 + t[2])
    # arrays of structs
    sp = "struct Pt { int x; string n; };\nPt[2] gs;\n"
    sd = "    Pt[2] oa;\n    oa[0].x = 100;\n    oa[1].x = 101;\n    oa[0].n = \"a\";\n    oa[1].n = \"b\";\n    gs[0].x = 100;\n    gs[1].x = 101;\n"
    for i in range(-1, 4):
        ok = 0 <= i < 2
        k = max(0, min(i, 1))
        add("sa-read-%d" % i, sd, "    int v = oa[%d].x;\n" % i, "v", ok, 100 + i, FID, sp)
        add("sa-read-var-%d" % i, sd + "    int i = %d;\n" % i, "    int v = oa[i].x;\n", "v", ok, 100 + i, FID, sp)
        add("sa-readstr-%d" % i, sd, "    string v = oa[%d].n;\n" % i, "v", ok, "ab"[k], FID, sp)
        add("sa-write-%d" % i, sd, "    oa[%d].x = 55;\n" % i, "oa[%d].x" % k, ok, 55, FID, sp)
        add("sa-writestr-%d" % i, sd, "    oa[%d].n = \"q\";\n" % i, "oa[%d].n" % k, ok, "q", FID, sp)
        add("sa-compound-%d" % i, sd, "    oa[%d].x += 5;\n" % i, "oa[%d].x" % k, ok, 105 + i, FID, sp)
        add("sa-incr-%d" % i, sd, "    oa[%d].x++;\n" % i, "oa[%d].x" % k, ok, 101 + i, FID, sp)
        add("sa-copy-%d" % i, sd, "    Pt q = oa[%d];\n" % i, "q.x", ok, 100 + i, FID, sp)
        add("sa-assign-%d" % i, sd + "    Pt q;\n    q.x = 7;\n", "    oa[%d] = q;\n" % i, "oa[%d].x" % k, ok, 7, FID, sp)
        add("sa-global-read-%d" % i, sd, "    int v = gs[%d].x;\n" % i, "v", ok, 100 + i, FID, sp)
        add("sa-global-write-%d" % i, sd, "    gs[%d].x = 55;\n" % i, "gs[%d].x" % k, ok, 55, FID, sp)
    # two-dimensional string arrays (reads)
    s2 = "    string[2][2] s = [[\"s00\", \"s01\"], [\"s10\", \"s11\"]];\n"
    for i in range(-1, 3):
        for j in range(-1, 4):
            ok = 0 <= i < 2 and 0 <= j < 2
            add("str2d-read-%d-%d" % (i, j), s2, "    string v = s[%d][%d];\n" % (i, j), "v", ok, "s%d%d" % (i, j), FID)
            add("str2d-print-%d-%d" % (i, j), s2, "", "s[%d][%d]" % (i, j), ok, "s%d%d" % (i, j), FID)
    # not generated, because the in-range form does not work either: struct arrays as parameters (the callee sees zeros and its
    # stores are lost), stores to a two-dimensional string array (rejected), row slices `int[3] r = m[0];` (zeros)
    return cases


def main(a):
    v = common.Verdict(PID, a.tier, a.seed)
    driver_ok, failed = common.lean_obligations(v, ["CbProofs", "CbProps.C05"], THEOREMS)
    harness, hlog = common.build_harness("h_flat", ["src/common/debug_impl.cpp", "src/common/debug_messages.cpp"])
    if harness is None or not driver_ok:
        v.violation("cannot build harness/driver: " + (hlog or "")[-800:],
                    {"correspondence": "h_flat vs CbModel.FlatIndex.flatIndex", "log": hlog[-2000:]}, no_input=True)
        return v.finish()
    drv = common.driver_path()

    if a.replay:
        rp = json.load(open(a.replay))
        if rp.get("kind") == "inproc":
            _, m, _ = common.run_lines([drv, "c05"], [rp["case_line"]])
            _, i, _ = common.run_lines([harness], [rp["case_line"]])
            if m != i:
                v.violation("replay still fails", rp)
        elif rp.get("kind") == "form":
            exe, blog = common.build_impl()
            out = common.run_programs(exe, [rp["program"]])[0]
            if (out[0], out[1]) != (rp["expected_stdout"], rp["expected_exit"]):
                v.violation("replay still fails", rp)
        else:
            exe, blog = common.build_impl()
            _, m, _ = common.run_lines([drv, "c05seq"], [rp["model_line"]])
            out = common.run_programs(exe, [rp["program"]])[0]
            if (out[0], out[1]) != expected(m[0]):
                v.violation("replay still fails", rp)
        return v.finish()

    # ---- (a) in-process, exhaustive
    cases = []
    for s in shapes():
        for t in tuples(s):
            cases.append("%s\t%s" % (" ".join(map(str, s)), " ".join(map(str, t))))
    # wrong arity
    for s in [[3], [2, 3], [2, 3, 4]]:
        for t in [[], [0], [0, 0], [0, 0, 0], [0, 0, 0, 0], [1, 2]]:
            if len(t) != len(s):
                cases.append("%s\t%s" % (" ".join(map(str, s)), " ".join(map(str, t))))
    _, m, _ = common.run_lines_parallel([drv, "c05"], cases)
    _, i, _ = common.run_lines_parallel([harness], cases)
    evals = len(cases)
    nontrivial = 0
    rep = 0
    if len(m) != len(cases) or len(i) != len(cases):
        v.violation("in-process run produced a wrong number of lines", {"correspondence": "h_flat"}, no_input=True)
    else:
        for c, x, y in zip(cases, m, i):
            if x == "err":
                nontrivial += 1
            if x != y and rep < 3:
                rep += 1
                v.violation("calculate_flat_index(%s) = %s but the row-major model gives %s" % (c.replace("\t", " ; "), y, x),
                            {"kind": "inproc", "case_line": c, "model": x, "impl": y})

    # ---- (b) end-to-end
    exe, blog = common.build_impl()
    if exe is None:
        v.violation("interpreter does not build from the working tree", {"log": blog}, no_input=True)
        return v.finish()
    findings = common.load_findings(PID)
    gates = set()
    for f in findings:
        w = json.load(open(os.path.join(common.ROOT, f["witness"])))
        gates |= set(f.get("gates", []))
        if w.get("kind") == "form":
            continue          # reported with the number of failing cases of suite (c)
        _, m1, _ = common.run_lines([drv, "c05seq"], [w["model_line"]])
        o1 = common.run_programs(exe, [w["program"]])[0]
        if (o1[0], o1[1]) != expected(m1[0]):
            v.known_finding(f["what"])
    progs, mlines, meta = [], [], []
    for (s, path, ops, uv) in gen_e2e(a.seed, a.tier, gates):
        progs.append(render(s, path, ops, uv))
        mlines.append(model_line(s, path, ops))
        meta.append((s, path, ops))
    _, mo, _ = common.run_lines_parallel([drv, "c05seq"], mlines)
    outs = common.run_programs(exe, progs)
    dist = {}
    samples = []
    known_hit = {}
    for k, (p, ml, mt, mout, o) in enumerate(zip(progs, mlines, meta, mo, outs)):
        dist[mt[1]] = dist.get(mt[1], 0) + 1
        exp = expected(mout)
        if mt[1] == "double":
            exp = ("".join((repr(int(l) + 0.5) if l.lstrip("-").isdigit() else l) + "\n" for l in exp[0].split("\n")[:-1]), exp[1])
        if k % 211 == 0 and len(samples) < 5:
            samples.append({"shape": mt[0], "path": mt[1], "ops": mt[2][:4], "expected_exit": exp[1]})
        if "|err|" in mout or ",E" in mout or mout.startswith("E"):
            nontrivial += 1
        if (o[0], o[1]) != exp:
            rp = {"kind": "e2e", "shape": mt[0], "path": mt[1], "ops": mt[2], "program": p, "model_line": ml,
                  "expected_stdout": exp[0], "expected_exit": exp[1], "got_stdout": o[0], "got_exit": o[1],
                  "stderr": o[2]}
            if rep < 6:
                rep += 1
                v.violation("path %s shape %s: expected exit %s got %s" % (mt[1], mt[0], exp[1], o[1]), rp)
    evals += len(progs)
    # ---- (c) access forms outside the flat-store model (address-of with an out-of-range tuple, arrays of structs,
    #          two-dimensional string arrays): oracle stated by the property itself
    xc = extra_cases()
    xo = common.run_programs(exe, [c["program"] for c in xc], timeout=5)
    listed = {f["id"]: f for f in findings}
    xknown = {}
    xrep = 0
    for c, o in zip(xc, xo):
        if c["expect_class"] == "error":
            nontrivial += 1
        if o[1] == c["expect_class"] and o[0] == c["expect_stdout"]:
            continue
        fid = c.get("finding")
        if fid and fid in listed:
            xknown[fid] = xknown.get(fid, 0) + 1
            continue
        if xrep < 6:
            xrep += 1
            v.violation("access-form case %s: expected exit class %s and stdout %r, got %s / %r" % (
                c["id"], c["expect_class"], c["expect_stdout"], o[1], o[0][-100:]),
                {"kind": "form", "case": c["id"], "program": c["program"], "expected_stdout": c["expect_stdout"],
                 "expected_exit": c["expect_class"], "got_stdout": o[0], "got_exit": o[1], "stderr": o[2]})
    for fid, n in xknown.items():
        v.known_finding(listed[fid]["what"] + " [%d cases]" % n)
    evals += len(xc)
    v.coverage.update({"access_form_cases": len(xc), "known_finding_cases": xknown})
    v.coverage.update({
        "evaluations": evals, "distinct_nontrivial": nontrivial,
        "rule": "in-process: every shape of <=3 dims with extents 1..5 x every index tuple in [-2,extent+2]^d (exhaustive) "
                "+ wrong-arity tuples; end-to-end: access sequences per path vs the Lean flat store; non-trivial = the "
                "model rejects at least one access of the case",
        "samples": samples, "e2e_programs_by_path": dist, "gates_closed": sorted(gates), "inprocess_cases": len(cases), "exhaustive": True,
        "exhaustive_note": "the in-process suite is exhaustive on the stated bounds; the end-to-end suite is sampled in "
                           "the quick tier"})
    v.assumptions += ["C++ int arithmetic of calculate_flat_index does not overflow for the array sizes the language allows",
                      "array_get/array_set built-ins operate on raw heap memory and are not covered"]
    return v.finish()
