import CbModel.FlatIndex
import Driver.Proto
namespace Driver
open CbModel.FlatIndex

def parseInts (s : List Char) : Option (List Int) :=
  let toks := ((String.ofList s).splitOn " ").filter (· ≠ "")
  toks.mapM (fun t => t.toInt?)

def parseNats (s : List Char) : Option (List Nat) :=
  (parseInts s).bind fun l => l.mapM (fun i => if i < 0 then none else some i.toNat)

/-- fields: dims, idxs -> k | err -/
def c05Line (fs : List (List Char)) : String :=
  match fs with
  | [d, i] =>
    match parseNats d, parseInts i with
    | some dims, some idxs =>
      match flatIndex dims idxs with
      | some k => toString k
      | none => "err"
    | _, _ => "bad-op"
  | _ => "bad-op"

/-- one access sequence against the flat store.
    fields: mode (plain|checked), dims, initial cells, ops "g i j;s i j v;..."
    output: printed values joined by "," then "|ok" or "|err", then the final cells.
    plain: the first rejected access ends the run; checked: it prints E and the run continues. -/
def c05Seq (fs : List (List Char)) : String :=
  match fs with
  | [mode, d, c, ops] =>
    match parseNats d, parseInts c with
    | some dims, some cells =>
      let checked := String.ofList mode == "checked"
      let opl := ((String.ofList ops).splitOn ";").filter (· ≠ "")
      let rec go (ops : List String) (cells : List Int) (out : List String) : List Int × List String × Bool :=
        match ops with
        | [] => (cells, out, true)
        | op :: rest =>
          match (op.splitOn " ").filter (· ≠ "") with
          | "g" :: is =>
            match is.mapM (·.toInt?) with
            | some idxs =>
              match arrayGet dims cells idxs with
              | some v => go rest cells (toString v :: out)
              | none => if checked then go rest cells ("E" :: out) else (cells, out, false)
            | none => (cells, "bad-op" :: out, false)
          | "s" :: is =>
            match is.mapM (·.toInt?) with
            | some l =>
              match l.reverse with
              | v :: ri =>
                match arraySet dims cells ri.reverse v with
                | some cells' => go rest cells' out
                | none => if checked then go rest cells ("E" :: out) else (cells, out, false)
              | [] => (cells, "bad-op" :: out, false)
            | none => (cells, "bad-op" :: out, false)
          | _ => (cells, "bad-op" :: out, false)
      let (cells', out, ok) := go opl cells []
      String.intercalate "," out.reverse ++ (if ok then "|ok|" else "|err|") ++
        String.intercalate " " (cells'.map toString)
    | _, _ => "bad-op"
  | _ => "bad-op"

end Driver
