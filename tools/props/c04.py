"""C04 — integer-typed storage never holds a value outside its declared range.

Theorems: lean/CbProps/C04.lean (range invariant over all executions of CbRef; store laws).
Tie: (a) the full matrix  type x store path x boundary value  (each cell one program: store, read
back, print), (b) random core programs biased to narrow types; model vs interpreter.
"""
import json, os
import common, gen_core
from props.refprops import RefCheck, all_findings

PID = "C04"
THEOREMS = {"CbOblig.C04": ["CbOblig.C04.rangeTable_is_spec"], "CbProps.C04": ["CbProps.C04." + t for t in [
    "exec_preserves_range_inv", "call_preserves_range_inv", "eval_preserves_range_inv", "init_range_inv",
    "read_in_range", "oob_store_is_error", "unsigned_negative_clamps", "inrange_roundtrip", "boundaries_in_range"]]}

RANGE = gen_core.RANGE
TYPES = ["tiny", "utiny", "short", "ushort", "int", "uint", "long", "ulong", "char"]   # `unsigned char` is not accepted by the parser
PATHS = ["init", "assign", "compound", "incdec", "arg", "ret", "elem1", "elemmd", "member", "global", "static",
         "globalarr", "memberarr"]
I64 = (-2**63, 2**63 - 1)


def values(ty):
    lo, hi = RANGE[ty]
    vs = {lo - 1, lo, lo + 1, -1, 0, 1, hi - 1, hi, hi + 1, hi + 2, -5, 100}
    return sorted(v for v in vs if I64[0] <= v <= I64[1])


def lit(n):
    return "(lit %d)" % n


def cell_program(ty, path, v, via_var):
    """store value v into a location of type ty through `path`, read it back, print it"""
    src = "(var src)" if via_var else lit(v)
    pre = "(decl - long src %s) " % lit(v) if via_var else ""
    structs, globs, funcs = "", "", ""
    if path == "init":
        body = "(decl - %s x %s) (print (e (var x)))" % (ty, src)
    elif path == "assign":
        body = "(decl - %s x (lit 0)) (assign (var x) %s) (print (e (var x)))" % (ty, src)
    elif path == "compound":
        # reach v from 1 by adding v-1 (the addition itself stays inside int64)
        if not (I64[0] <= v - 1 <= I64[1]):
            return None
        d = "(bin sub %s (lit 1))" % src
        body = "(decl - %s x (lit 1)) (compound add (var x) %s) (print (e (var x)))" % (ty, d)
    elif path == "incdec":
        lo, hi = RANGE[ty]
        if v > 0:
            if not (lo <= v - 1 <= hi):
                return None
            body = "(decl - %s x %s) (expr (incdec post inc (var x))) (print (e (var x)))" % (ty, lit(v - 1))
        else:
            if not (lo <= v + 1 <= hi):
                return None
            body = "(decl - %s x %s) (expr (incdec pre dec (var x))) (print (e (var x)))" % (ty, lit(v + 1))
        pre = ""
    elif path == "arg":
        funcs = "(func show void (params (%s p)) ((print (e (var p)))))" % ty
        body = "(expr (call show %s))" % src
    elif path == "ret":
        funcs = "(func give %s (params (long q)) ((ret (var q))))" % ty
        body = "(decl - long r (call give %s)) (print (e (var r)))" % src
    elif path == "elem1":
        body = "(declarr - %s a (dims 3)) (assign (idx a (lit 1)) %s) (print (e (idx a (lit 1))) (e (idx a (lit 0))))" % (ty, src)
    elif path == "elemmd":
        body = "(declarr - %s a (dims 2 2)) (assign (idx a (lit 1) (lit 0)) %s) (print (e (idx a (lit 1) (lit 0))) (e (idx a (lit 0) (lit 1))))" % (ty, src)
    elif path == "member":
        structs = "(struct S (field int pad) (field %s m))" % ty
        body = "(declstruct S s) (assign (fld s m) %s) (print (e (fld s m)) (e (fld s pad)))" % src
    elif path == "memberarr":
        structs = "(struct S (field int pad) (field %s m 3))" % ty
        body = "(declstruct S s) (assign (fldidx s m (lit 2)) %s) (print (e (fldidx s m (lit 2))) (e (fldidx s m (lit 0))))" % src
    elif path == "global":
        globs = "(decl - %s g (lit 0))" % ty
        body = "(assign (var g) %s) (print (e (var g)))" % src
    elif path == "globalarr":
        globs = "(declarr - %s ga (dims 2))" % ty
        body = "(assign (idx ga (lit 1)) %s) (print (e (idx ga (lit 1))))" % src
    elif path == "static":
        body = "(decl s %s x (lit 0)) (assign (var x) %s) (print (e (var x)))" % (ty, src)
    else:
        return None
    return ("(prog (structs%s) (globals%s) (funcs %s(func main int (params) (%s%s (print (s \"END\")) (ret (lit 0))))))"
            % ((" " + structs) if structs else "", (" " + globs) if globs else "", funcs + " " if funcs else "", pre, body))


def indirect_store_cases():
    """store paths the reference semantics does not have (pointers, reference parameters, self, struct-array elements, array
    parameters): in-range values are stored and read back, out-of-range values stop the program with an error before anything
    is printed; the oracle is the documented range of the type"""
    cases = []
    TY = {"tiny": (-128, 127), "short": (-32768, 32767), "int": (-2**31, 2**31 - 1), "unsigned tiny": (0, 255), "unsigned short": (0, 65535)}
    for ty, (lo, hi) in TY.items():
        tn = ty.replace(" ", "_")
        pre = ("struct S_%s { int pad; %s m; %s[2] arr; };\ninterface I_%s { void put(long v); }\nimpl I_%s for S_%s {\n    void put(long v) { self.m = v; }\n}\n"
               "void rset(%s& r, long v) { r = v; }\nvoid aset(%s[2] q, long v) { q[1] = v; }\nvoid pset(%s* p, long v) { *p = v; }\n" % (tn, ty, ty, tn, tn, tn, ty, ty, ty))
        vals = [hi, hi + 1, lo] + ([lo - 1] if lo < 0 else [])
        for v in vals:
            ok = lo <= v <= hi
            for name, body, show in [
                ("ptr", "    %s x = 0;\n    %s* p = &x;\n    *p = %d;\n" % (ty, ty, v), "x"),
                ("ptrparam", "    %s x = 0;\n    pset(&x, %d);\n" % (ty, v), "x"),
                ("ref", "    %s x = 0;\n    rset(x, %d);\n" % (ty, v), "x"),
                ("self", "    S_%s s;\n    s.m = 0;\n    s.put(%d);\n" % (tn, v), "s.m"),
                ("arrow", "    S_%s s;\n    s.m = 0;\n    S_%s* q = &s;\n    q->m = %d;\n" % (tn, tn, v), "s.m"),
                ("structarr", "    S_%s[2] oa;\n    oa[1].m = %d;\n" % (tn, v), "oa[1].m"),
                ("memberarr", "    S_%s s;\n    s.arr[1] = %d;\n" % (tn, v), "s.arr[1]"),
                ("arrparam", "    %s[2] a = [0, 0];\n    aset(a, %d);\n" % (ty, v), "a[1]"),
                ("member-incr", "    S_%s s;\n    s.m = %d;\n    s.m++;\n" % (tn, v - 1 if lo <= v - 1 <= hi else lo), "s.m"),
            ]:
                if name == "member-incr" and not (lo <= v - 1 <= hi):
                    continue
                prog = pre + "int main() {\n" + body + "    println(%s);\n    println(\"END\");\n    return 0;\n}\n" % show
                if ok:
                    cases.append({"id": "%s-%s-%d" % (tn, name, v), "program": prog, "expect_class": "ok", "expect_stdout": "%d\nEND\n" % v})
                elif lo == 0 and v < 0:
                    cases.append({"id": "%s-%s-%d" % (tn, name, v), "program": prog, "expect_class": "ok", "expect_stdout": "0\nEND\n"})
                else:
                    cs_ = {"id": "%s-%s-%d" % (tn, name, v), "program": prog, "expect_class": "error", "expect_stdout": ""}
                    if name in ("ptr", "ptrparam", "ref", "self", "arrow", "structarr"):
                        cs_["finding"] = "indirect_stores_not_range_checked"
                    cases.append(cs_)
    return cases


def const_param_cases():
    """argument passing to a parameter declared const (and to a const local initialised from a parameter): range-checked like
    every other store"""
    cases = []
    TY = {"tiny": (-128, 127), "short": (-32768, 32767), "int": (-2**31, 2**31 - 1), "unsigned tiny": (0, 255), "unsigned short": (0, 65535), "char": (0, 255)}
    for ty, (lo, hi) in TY.items():
        tn = ty.replace(" ", "_")
        pre = ("long f1(const %s a) {\n    return a;\n}\nlong f2(int pad, const %s a, const int z) {\n    return a + z;\n}\n"
               "long f3(long w) {\n    const %s c = w;\n    return c;\n}\n" % (ty, ty, ty))
        if ty == "char":
            continue            # char arguments are printed as characters; the integer channel is covered by the matrix
        for v in [hi, hi + 1, lo] + ([lo - 1] if lo < 0 else [-1]):
            for name, call in [("constparam", "f1(%d)" % v), ("constparam-var", "f1(src)"), ("constparam-mid", "f2(1, %d, 0)" % v), ("constlocal", "f3(%d)" % v)]:
                prog = pre + "int main() {\n    long src = %d;\n    println(\"start\");\n    println(%s);\n    println(\"END\");\n    return 0;\n}\n" % (v, call)
                cid = "%s-%s-%d" % (tn, name, v)
                if lo <= v <= hi:
                    cases.append({"id": cid, "program": prog, "expect_class": "ok", "expect_stdout": "start\n%d\nEND\n" % v})
                elif lo == 0 and v < 0:
                    cases.append({"id": cid, "program": prog, "expect_class": "ok", "expect_stdout": "start\n0\nEND\n"})
                else:
                    cases.append({"id": cid, "program": prog, "expect_class": "error", "expect_stdout": "start\n",
                                  "finding": "const_parameter_not_range_checked" if name.startswith("constparam") else None})
    # constructor parameters
    for ty, (lo, hi) in TY.items():
        if ty == "char":
            continue
        tn = ty.replace(" ", "_")
        pre = "struct Acc_%s { long total; };\nimpl Acc_%s {\n    self(%s start) {\n        self.total = start;\n    }\n}\n" % (tn, tn, ty)
        for v in [hi, hi + 1, lo] + ([lo - 1] if lo < 0 else [-1]):
            prog = pre + "int main() {\n    println(\"start\");\n    Acc_%s b(%s);\n    println(b.total);\n    println(\"END\");\n    return 0;\n}\n" % (tn, str(v) if v >= 0 else "0 - %d" % -v)
            cid = "%s-ctorparam-%d" % (tn, v)
            if lo <= v <= hi:
                cases.append({"id": cid, "program": prog, "expect_class": "ok", "expect_stdout": "start\n%d\nEND\n" % v})
            elif lo == 0 and v < 0:
                cases.append({"id": cid, "program": prog, "expect_class": "ok", "expect_stdout": "start\n0\nEND\n", "finding": "constructor_parameter_not_range_checked"})
            else:
                cases.append({"id": cid, "program": prog, "expect_class": "error", "expect_stdout": "start\n", "finding": "constructor_parameter_not_range_checked"})
    return cases


INIT_FID = "aggregate_initialisers_not_range_checked"


def initialiser_cases():
    """initialisers other than `T x = v;`: several declarators in one declaration (local, static, file scope), array literals
    (1-D, 2-D), struct literals (positional, named): in-range values are stored exactly, out-of-range values stop the program,
    negatives to unsigned targets are clamped"""
    cases = []
    TY = {"tiny": (-128, 127), "short": (-32768, 32767), "int": (-2**31, 2**31 - 1), "unsigned tiny": (0, 255), "unsigned short": (0, 65535)}

    def add(cid, pre, body, show, v, lo, hi, fid):
        prog = pre + "int main() {\n    println(\"start\");\n" + body + "    println(%s);\n    println(\"END\");\n    return 0;\n}\n" % show
        if lo <= v <= hi:
            cases.append({"id": cid, "program": prog, "expect_class": "ok", "expect_stdout": "start\n%d\nEND\n" % v, "finding": fid})
        elif lo == 0 and v < 0:
            cases.append({"id": cid, "program": prog, "expect_class": "ok", "expect_stdout": "start\n0\nEND\n", "finding": fid})
        else:
            cases.append({"id": cid, "program": prog, "expect_class": "error", "expect_stdout": None, "finding": fid})
    for ty, (lo, hi) in TY.items():
        tn = ty.replace(" ", "_")
        st = "struct S_%s { int pad; %s m; int z; };\n" % (tn, ty)
        for v in [hi, hi + 1, lo] + ([lo - 1] if lo < 0 else [-1]):
            lv = str(v) if v >= 0 else "(0 - %d)" % -v
            add("%s-multidecl-local-%d" % (tn, v), "", "    %s a = 0, b = %s;\n" % (ty, lv), "b", v, lo, hi, None)
            add("%s-multidecl-first-%d" % (tn, v), "", "    %s a = %s, b = 0;\n" % (ty, lv), "a", v, lo, hi, None)
            add("%s-multidecl-static-%d" % (tn, v), "", "    static %s a = 0, b = %s;\n" % (ty, lv), "b", v, lo, hi, None)
            add("%s-multidecl-global-%d" % (tn, v), "%s ga = 0, gb = %s;\n" % (ty, lv), "", "gb", v, lo, hi, INIT_FID)
            add("%s-arraylit-%d" % (tn, v), "", "    %s[3] a = [0, 1, %s];\n" % (ty, lv), "a[2]", v, lo, hi, INIT_FID)
            add("%s-arraylit-2d-%d" % (tn, v), "", "    %s[2][2] a = [[0, 1], [%s, 0]];\n" % (ty, lv), "a[1][0]", v, lo, hi, INIT_FID)
            add("%s-arraylit-assign-%d" % (tn, v), "", "    %s[3] a = [0, 0, 0];\n    a = [0, 1, %s];\n" % (ty, lv), "a[2]", v, lo, hi, INIT_FID)
            add("%s-structlit-%d" % (tn, v), st, "    S_%s s = {1, %s, 3};\n" % (tn, lv), "s.m", v, lo, hi, INIT_FID)
            add("%s-structlit-named-%d" % (tn, v), st, "    S_%s s = {pad: 1, m: %s, z: 3};\n" % (tn, lv), "s.m", v, lo, hi, INIT_FID)
            add("%s-structlit-assign-%d" % (tn, v), st, "    S_%s s;\n    s = {1, %s, 3};\n" % (tn, lv), "s.m", v, lo, hi, INIT_FID)
    return cases


def indirect_step_cases():
    """++ / -- / += through an indirection at the boundary of the target's type: one step inside the range is stored, the
    step that leaves it stops the program (an unsigned target at 0 stays 0 under --)"""
    cases = []
    TY = {"tiny": (-128, 127), "short": (-32768, 32767), "int": (-2**31, 2**31 - 1), "unsigned int": (0, 2**32 - 1)}
    for ty, (lo, hi) in TY.items():
        tn = ty.replace(" ", "_")
        pre = ("struct S_%s { int pad; %s m; };\nvoid bump(%s* p) { (*p)++; }\nvoid drop(%s* p) { --(*p); }\n"
               "void radd(%s& r, int k) { r += k; }\n" % (tn, ty, ty, ty, ty))
        for start, up in [(hi - 1, True), (hi, True), (lo + 1, False), (lo, False)]:
            end = start + 1 if up else start - 1
            forms = [
                ("ptr-step", "    %s x = %d;\n    %s* p = &x;\n    %s;\n" % (ty, start, ty, "(*p)++" if up else "(*p)--"), "x"),
                ("ptr-prestep", "    %s x = %d;\n    %s* p = &x;\n    %s;\n" % (ty, start, ty, "++(*p)" if up else "--(*p)"), "x"),
                ("ptrparam-step", "    %s x = %d;\n    %s(&x);\n" % (ty, start, "bump" if up else "drop"), "x"),
                ("ref-step", "    %s x = %d;\n    %s;\n" % (ty, start, "radd(x, 1)" if up else "radd(x, -1)"), "x"),
                ("arrow-step", "    S_%s s;\n    s.m = %d;\n    S_%s* q = &s;\n    q->m %s 1;\n" % (tn, start, tn, "+=" if up else "-="), "s.m"),
                ("structarr-step", "    S_%s[2] oa;\n    oa[1].m = %d;\n    oa[1].m%s;\n" % (tn, start, "++" if up else "--"), "oa[1].m"),
            ]
            if ty in ("int", "unsigned int"):
                # pointers to elements of tiny / short arrays are not supported by the implementation
                forms += [
                    ("elemptr-step", "    %s[2] a = [0, %d];\n    %s* p = &a[1];\n    %s;\n" % (ty, start, ty, "(*p)++" if up else "(*p)--"), "a[1]"),
                    ("elemptr-prestep", "    %s[2] a = [0, %d];\n    %s* p = &a[1];\n    %s;\n" % (ty, start, ty, "++(*p)" if up else "--(*p)"), "a[1]"),
                ]
                if ty == "int":
                    # &a[1] of an unsigned array as a pointer argument is not supported (null pointer error)
                    forms.append(("elemptrparam-step", "    %s[2] a = [0, %d];\n    %s(&a[1]);\n" % (ty, start, "bump" if up else "drop"), "a[1]"))
            for name, body, show in forms:
                prog = pre + "int main() {\n" + body + "    println(%s);\n    println(\"END\");\n    return 0;\n}\n" % show
                cid = "%s-%s-%d-%s" % (tn, name, start, "up" if up else "down")
                if lo <= end <= hi:
                    cases.append({"id": cid, "program": prog, "expect_class": "ok", "expect_stdout": "%d\nEND\n" % end})
                elif lo == 0 and end < 0:
                    cases.append({"id": cid, "program": prog, "expect_class": "ok", "expect_stdout": "0\nEND\n"})
                else:
                    cases.append({"id": cid, "program": prog, "expect_class": "error", "expect_stdout": ""})
    return cases


def main(a):
    c = RefCheck(PID, a, ["CbGen", "CbProofs", "CbProps.C04", "CbOblig.C04"], THEOREMS, translators=["ranges"])
    if not c.build():
        return c.v.finish()
    if a.replay:
        return c.replay(a.replay)
    c.witnesses()
    quick = a.tier == "quick"
    cells = {}
    progs = []
    for ty in TYPES:
        for path in PATHS:
            for v in values(ty):
                for via_var in (False, True):
                    s = cell_program(ty, path, v, via_var)
                    if s is None:
                        continue
                    lo, hi = RANGE[ty]
                    kind = "inrange" if lo <= v <= hi else ("neg_unsigned" if (lo == 0 and v < 0) else "oor")
                    cells[s] = (ty, path, v, kind, via_var)
                    progs.append(s)
    specs = [(f["id"], f.get("cells", [])) for f in all_findings() if f["property"] == PID]

    def known_cell(r):
        ty, path, v, kind, via_var = cells[r.sexp]
        for fid, cl in specs:
            for sp in cl:
                if sp["path"] == path and kind in sp["kinds"] and (not sp.get("unsigned_only") or ty.startswith("u")):
                    return fid
        return None
    c.suite("matrix", progs, nontrivial=lambda r: cells[r.sexp][:4] if cells[r.sexp][3] != "inrange" or
            cells[r.sexp][2] in RANGE[cells[r.sexp][0]] else None, known_cell=known_cell, max_report=6, shrink=False)
    # chained and ternary assignment statements (w = x = V;  x = c ? V : 0;): the S-expression program stores in two plain
    # statements; the rendered text is rewritten to the chained form (refrun.join_chains), which means the same
    chain = []
    for ty in TYPES:
        if ty.startswith("u") or ty == "char":
            continue          # the value of an assignment to an unsigned target after clamping is not specified
        for v in values(ty):
            for via_var in (False, True):
                src = "(var src)" if via_var else lit(v)
                pre = "(decl - long src %s) " % lit(v) if via_var else ""
                for body in ("(decl - %s x (lit 0)) (decl - long w (lit 7)) (assign (var x) %s) (assign (var w) (var x)) (print (e (var w)) (e (var x)))" % (ty, src),
                             "(decl - %s x (lit 0)) (decl - %s y (lit 0)) (assign (var x) %s) (assign (var y) (var x)) (print (e (var y)) (e (var x)))" % (ty, ty, src)):
                    chain.append("(prog (structs) (globals) (funcs (func main int (params) (%s%s (print (s \"END\")) (ret (lit 0))))))" % (pre, body))
    import refrun
    c.suite("chained-assignment", chain, nontrivial=lambda r: hash(r.sexp), max_report=4, source_transform=refrun.join_chains)
    tern = []
    for ty in TYPES:
        for v in values(ty):
            for cond in (1, 0):
                a_, b_ = (lit(v), lit(0)) if cond else (lit(0), lit(v))
                tern.append("(prog (structs) (globals) (funcs (func main int (params) ((decl - %s x (lit 0)) (decl - int c (lit %d)) "
                            "(assign (var x) (tern (var c) %s %s)) (print (e (var x))) (print (s \"END\")) (ret (lit 0))))))" % (ty, cond, a_, b_))
    c.suite("ternary-assignment", tern, nontrivial=lambda r: hash(r.sexp), max_report=4, shrink=False)
    c.raw_suite("indirect-stores", indirect_store_cases(), max_report=8)
    c.raw_suite("indirect-steps", indirect_step_cases(), max_report=8)
    c.raw_suite("const-parameters", const_param_cases(), max_report=6)
    c.raw_suite("initialisers", initialiser_cases(), max_report=6)
    n = 500 if quick else 50000
    rnd = [gen_core.gen_program(a.seed, 41, k, c.gates, size=25, features={"narrow": True})[0] for k in range(n)]
    c.suite("random-narrow", rnd, nontrivial=lambda r: hash(r.sexp) if r.status == "exit1:range" else None)
    return c.finish(
        rule="matrix: 9 integer types x 13 store paths x boundary values {lo-1,lo,lo+1,-5,-1,0,1,100,hi-1,hi,hi+1,hi+2} x "
             "{literal, via long variable}; each cell one program (store, read back, print); non-trivial = distinct cell "
             "(type,path,value) that is out of range or exactly a boundary. random-narrow: core programs; non-trivial = "
             "model ends in a range error",
        extra={"exhaustive": True, "matrix_cells": len(progs),
               "exhaustive_note": "the matrix is enumerated completely; cells listed under a known finding are "
                                  "attributed to it, any other failing cell is a violation"},
        assumptions=["bool is excluded from the matrix (only 0/1 are in the fragment)"])
