import CbModel.Preproc
import Driver.Proto
namespace Driver
open CbModel.Preproc

/-- fields: k, (name, value)×k, file, source.  Output: errs, output text. -/
def c17Line (fs : List (List Char)) : String :=
  match fs with
  | k :: rest =>
    match (String.ofList k).toNat? with
    | none => "bad-op"
    | some k =>
      let rec pairs : Nat → List (List Char) → List (List Char × List Char) → Option (List (List Char × List Char) × List (List Char))
        | 0, r, acc => some (acc.reverse, r)
        | n + 1, a :: b :: r, acc => pairs n r ((a, b) :: acc)
        | _, _, _ => none
      match pairs k rest [] with
      | some (ds, [file, src]) =>
        let st := processText ds file src
        let out := st.out.flatMap (fun l => l ++ ['\n'])
        joinFields [(toString st.errs).toList, out]
      | _ => "bad-op"
  | _ => "bad-op"

end Driver
