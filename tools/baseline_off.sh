#!/bin/bash
# Runs the repository's own test suite on a scratch copy of the working tree (CB_VERIF_SRC,
# default /repo) built WITHOUT -DCB_VERIF.  Exit 0 iff all four suites pass and every stable
# result name of /root/.vp/BASELINE.json appears in the output.
set -u
SRC="${CB_VERIF_SRC:-/repo}"
D="$(mktemp -d /var/tmp/cbverif.base.XXXXXX)"
trap 'rm -rf "$D"' EXIT
rsync -a --exclude '*.o' --exclude '/main' --exclude '.git' "$SRC/" "$D/src/" || exit 2
cd "$D/src" || exit 2
make -j16 main > "$D/build.log" 2>&1 || { tail -30 "$D/build.log"; echo "BUILD FAILED"; exit 1; }
make test > "$D/test.log" 2>&1
rc=$?
python3 - "$D/test.log" <<'PY'
import json, sys, re
log = open(sys.argv[1], errors="replace").read()
names = json.load(open("/root/.vp/BASELINE.json"))["stable_pass"] if __import__("os").path.exists("/root/.vp/BASELINE.json") else []
missing = []
for n in names:
    if n.startswith("Running: "):
        # a unit test that ran and did not fail
        if n not in log:
            missing.append(n)
    elif n.startswith("✅"):
        if not re.search(re.escape(n) + r".*PASSED", log):
            missing.append(n)
fails = re.findall(r"^❌.*$", log, re.M)
print("baseline names checked: %d, missing: %d, failure lines: %d" % (len(names), len(missing), len(fails)))
for m in missing: print("MISSING:", m)
for f in fails[:10]: print(f)
sys.exit(1 if missing or fails else 0)
PY
prc=$?
tail -12 "$D/test.log"
[ $rc -eq 0 ] && [ $prc -eq 0 ] && { echo "BASELINE OK"; exit 0; }
echo "BASELINE FAILED (make test rc=$rc, parse rc=$prc)"; exit 1
