import CbModel.LadderAssign
import CbProofs.LadderAssign
/-
  C02 — "assignment is the loosest level and groups to the right".
  STATEMENTS ARE FIXED — do not weaken them.
-/
namespace CbProps.C02Assign
open CbModel.Ladder

/-- the assignment operators are operators of no ladder level and no prefix operator takes their place: the ladder stops in
    front of them -/
def AWF (t : Table) (aops : List String) : Prop := ∀ s ∈ aops, ∀ i, s ∉ t.opsAt i

/-- the grammar of assignment chains; every operand is any token string that denotes its tree (redundant parentheses
    anywhere inside the operands) -/
inductive DerivesA (t : Table) (aops : List String) : AExpr → List Tok → Prop where
  | base {e : LExpr} {ts : List Tok} : Derives t 0 e ts → DerivesA t aops (.base e) ts
  | assign {op : String} {x : LExpr} {r : AExpr} {tx tr : List Tok} : op ∈ aops → isTarget x = true →
      Derives t 0 x tx → DerivesA t aops r tr → DerivesA t aops (.assign op x r) (tx ++ .op op :: tr)

/-- every operator of the chain's operands is in the table, every target is an lvalue, every assignment operator is one -/
def WFA (t : Table) (aops : List String) : AExpr → Prop
  | .base e => WFE t e
  | .assign op x r => op ∈ aops ∧ isTarget x = true ∧ WFE t x ∧ WFA t aops r

/-- **Main theorem.**  A chain  x1 op1 x2 op2 … e  parses to the RIGHT-nested tree assign(x1, assign(x2, … e)), with every
    operand parsed by the ladder, however redundantly the operands are parenthesised: assignment is the loosest level and
    groups to the right. -/
theorem parseAssign_of_derives (t : Table) (aops : List String) (hwf : t.WF) (ha : AWF t aops) {a : AExpr} {ts : List Tok}
    (h : DerivesA t aops a ts) : ∃ f, parseAssign t aops f ts = some (a, []) := by
  induction h with
  | base hd =>
    obtain ⟨f, hf⟩ := parse_of_derives t hwf hd
    exact ⟨f + 1, parseAssign_base_nil t aops f _ _ hf⟩
  | @assign op x r tx tr hop hx hd _ ih =>
    have hStop : StopAll t (.op op :: tr) := by
      refine ⟨?_, by intro r hR; simp at hR⟩
      intro s r' hR i _
      simp only [List.cons.injEq, Tok.op.injEq] at hR
      obtain ⟨rfl, _⟩ := hR
      exact ha _ hop i
    obtain ⟨f1, h1⟩ := (derives_goal t hwf hd).1 rfl (.op op :: tr) hStop
    obtain ⟨f2, h2⟩ := ih
    refine ⟨max f1 f2 + 1, ?_⟩
    rw [parseAssign_assign_step t aops _ _ tr x op (parse_mono_le t h1 (Nat.le_max_left _ _)) hop hx,
      parseAssign_mono_le t aops h2 (Nat.le_max_right _ _)]

/-- the result does not depend on the fuel once there is enough of it -/
theorem parseAssign_fuel_independent (t : Table) (aops : List String) {f f' : Nat} {ts : List Tok} {r r' : AExpr × List Tok}
    (h : parseAssign t aops f ts = some r) (h' : parseAssign t aops f' ts = some r') : r = r' := by
  exact parseAssign_fuel_indep t aops h h'

/-- round trip of the minimal print -/
theorem parseAssign_printAssign (t : Table) (aops : List String) (hwf : t.WF) (ha : AWF t aops) (a : AExpr)
    (hw : WFA t aops a) : ∃ f, parseAssign t aops f (printAssign t a) = some (a, []) := by
  apply parseAssign_of_derives t aops hwf ha
  induction a with
  | base e => exact DerivesA.base (printMin_derives t e hw 0 (Nat.zero_le _))
  | assign op x r ih =>
    obtain ⟨hop, hx, hwx, hwr⟩ := hw
    exact DerivesA.assign hop hx (printMin_derives t x hwx 0 (Nat.zero_le _)) (ih hwr)

/-- parenthesis invariance for chains: two token strings that denote the same chain parse alike -/
theorem assign_paren_invariance (t : Table) (aops : List String) (hwf : t.WF) (ha : AWF t aops) (a : AExpr)
    (ts ts' : List Tok) (h : DerivesA t aops a ts) (h' : DerivesA t aops a ts') (f f' : Nat) (r r' : AExpr × List Tok)
    (hp : parseAssign t aops f ts = some r) (hp' : parseAssign t aops f' ts' = some r') : r.1 = r'.1 := by
  obtain ⟨g, hg⟩ := parseAssign_of_derives t aops hwf ha h
  obtain ⟨g', hg'⟩ := parseAssign_of_derives t aops hwf ha h'
  rw [parseAssign_fuel_independent t aops hp hg, parseAssign_fuel_independent t aops hp' hg']

/-- the whole right-hand side belongs to the assignment (`x = c ? a : b`, `x = a || b` …): nothing binds looser -/
theorem assign_takes_whole_rhs (t : Table) (aops : List String) (hwf : t.WF) (ha : AWF t aops) (op : String) (x e : LExpr)
    (hop : op ∈ aops) (hx : isTarget x = true) (hwx : WFE t x) (hwe : WFE t e) :
    ∃ f, parseAssign t aops f (printMin t 0 x ++ .op op :: printMin t 0 e) = some (.assign op x (.base e), []) := by
  exact parseAssign_printAssign t aops hwf ha (.assign op x (.base e)) ⟨hop, hx, hwx, hwe⟩

/-- `x = y = e` is `x = (y = e)` -/
theorem assign_right_assoc (t : Table) (aops : List String) (hwf : t.WF) (ha : AWF t aops) (o1 o2 : String) (x y : String)
    (e : LExpr) (h1 : o1 ∈ aops) (h2 : o2 ∈ aops) (hwe : WFE t e) :
    ∃ f, parseAssign t aops f (.atom x :: .op o1 :: .atom y :: .op o2 :: printMin t 0 e) =
      some (.assign o1 (.atom x) (.assign o2 (.atom y) (.base e)), []) := by
  have := parseAssign_printAssign t aops hwf ha (.assign o1 (.atom x) (.assign o2 (.atom y) (.base e)))
    ⟨h1, rfl, trivial, h2, rfl, trivial, hwe⟩
  simpa [printAssign, printMin] using this

/-- a left side that is not an lvalue is rejected (`a + b = c`) -/
theorem non_target_rejected (t : Table) (aops : List String) (f : Nat) (ts r : List Tok) (l : LExpr) (s : String)
    (hp : parse t f 0 ts = some (l, .op s :: r)) (hs : s ∈ aops) (hl : isTarget l = false) :
    parseAssign t aops (f + 1) ts = none := by
  exact parseAssign_reject t aops f ts r l s hp hs hl

/-- decidable form of AWF -/
def awfCheck (t : Table) (aops : List String) : Bool :=
  aops.all fun s => (List.range t.n).all fun i => !(t.opsAt i).contains s

theorem awf_of_check (t : Table) (aops : List String) (h : awfCheck t aops = true) : AWF t aops := by
  intro s hs i hmem
  have hlt : i < t.n := by
    by_cases hlt : i < t.n
    · exact hlt
    · exfalso
      have h0 : t.levels[i]? = none := List.getElem?_eq_none (by unfold Table.n at hlt; omega)
      simp [Table.opsAt, List.getD_eq_getElem?_getD, h0] at hmem
  unfold awfCheck at h
  rw [List.all_eq_true] at h
  have := h s hs
  rw [List.all_eq_true] at this
  have := this i (List.mem_range.mpr hlt)
  simp [hmem] at this

theorem specAssign_awf : AWF specTable specAssignOps := awf_of_check _ _ (by decide)

/-! documented groupings, computed -/
example : parseAssign specTable specAssignOps 40 [.atom "a", .op "=", .atom "b", .op "=", .atom "c", .op "+", .atom "1"] =
    some (.assign "=" (.atom "a") (.assign "=" (.atom "b") (.base (.bin "+" (.atom "c") (.atom "1")))), []) := by decide
example : parseAssign specTable specAssignOps 40 [.atom "a", .op "+=", .atom "t", .q, .atom "x", .colon, .atom "y"] =
    some (.assign "+=" (.atom "a") (.base (.tern (.atom "t") (.atom "x") (.atom "y"))), []) := by decide
example : parseAssign specTable specAssignOps 40 [.atom "a", .op "+", .atom "b", .op "=", .atom "c"] = none := by decide
example : parseAssign specTable specAssignOps 40 [.op "*", .atom "p", .op "=", .atom "c"] =
    some (.assign "=" (.un "*" (.atom "p")) (.base (.atom "c")), []) := by decide

end CbProps.C02Assign
