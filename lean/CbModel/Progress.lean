/-
  C10 (partial) — termination of the front end's loops.
  `loop` is the shape shared by RecursiveParser::parseProgram ("while (!isAtEnd()) parseStatement()") and the
  lexer's main loop: a position in the input, a step that either fails (the parser throws, main exits 1) or
  returns the next position.  Core Lean only.
-/
namespace CbModel.Progress

inductive Outcome where
  | finished (iterations : Nat)
  | failed (iterations : Nat)
  | outOfFuel
  deriving Repr, DecidableEq

/-- `loop step len fuel pos n`: run from position `pos` with `n` iterations done so far -/
def loop (step : Nat → Option Nat) (len : Nat) : Nat → Nat → Nat → Outcome
  | 0, _, _ => .outOfFuel
  | fuel + 1, pos, n =>
    if len ≤ pos then .finished n
    else match step pos with
      | none => .failed n
      | some q => loop step len fuel q (n + 1)

/-- every successful step consumes input -/
def Progress (step : Nat → Option Nat) (len : Nat) : Prop :=
  ∀ p q, p < len → step p = some q → p < q

/-- the positions visited by a run (what the CB_VERIF hook records) -/
def visited (step : Nat → Option Nat) (len : Nat) : Nat → Nat → List Nat
  | 0, _ => []
  | fuel + 1, pos =>
    if len ≤ pos then [pos]
    else match step pos with
      | none => [pos]
      | some q => pos :: visited step len fuel q

/-- strictly increasing list of positions -/
def StrictlyIncreasing : List Nat → Prop
  | [] => True
  | [_] => True
  | a :: b :: r => a < b ∧ StrictlyIncreasing (b :: r)

end CbModel.Progress
