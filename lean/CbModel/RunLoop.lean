/-
  C15 — `SimpleEventLoop::run()`, the driver behind `run_event_loop()` (simple_event_loop.cpp):

      while (!task_queue_.empty()) {
          int task_id = task_queue_.front();
          task_queue_.pop_front();
          bool should_continue = execute_one_step(task_id);
          if (should_continue) task_queue_.push_back(task_id);
      }

  Model: a task is its id and the number of steps it still needs (the step that finishes it included, so
  `left ≥ 1` for every queued task); `execute_one_step` is abstracted to "one step less"; tasks neither spawn
  nor block (the part of the behaviour that is pure queue discipline).  `run` returns the sequence of task ids
  in the order they are stepped.  Core Lean only.
-/
namespace CbModel.RunLoop

structure Task where
  id : Nat
  left : Nat
  deriving Repr, DecidableEq, Inhabited

abbrev Queue := List Task

/-- one iteration of the loop: front, pop_front, one step, push_back when the task wants to continue -/
def stepQueue : Queue → Queue
  | [] => []
  | t :: q => if t.left ≤ 1 then q else q ++ [{ t with left := t.left - 1 }]

/-- the ids stepped by the loop, oldest first (fuel bounds the number of iterations) -/
def run : Nat → Queue → List Nat
  | 0, _ => []
  | _ + 1, [] => []
  | fuel + 1, t :: q => t.id :: run fuel (stepQueue (t :: q))

/-- the work still to do: one iteration per remaining step (a task with `left = 0` still takes one) -/
def work (q : Queue) : Nat := (q.map (fun t => max t.left 1)).sum

/-- round `k` (from 0): the tasks that still run in that round, in queue order -/
def round (q : Queue) (k : Nat) : List Nat := (q.filter (fun t => k < max t.left 1)).map (·.id)

def rounds (q : Queue) : Nat := (q.map (fun t => max t.left 1)).foldl max 0

/-- the schedule written out: round 0, then round 1, ... -/
def schedule (q : Queue) : List Nat := (List.range (rounds q)).flatMap (round q)

end CbModel.RunLoop
