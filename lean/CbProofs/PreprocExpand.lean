import CbModel.PreprocSpec
namespace CbModel.Preproc

theorem spanIdent_append (s : List Char) : (spanIdent s).1 ++ (spanIdent s).2 = s := by
  induction s with
  | nil => simp [spanIdent]
  | cons c r ih =>
    unfold spanIdent
    split
    · simp [ih]
    · simp

theorem spanIdent_snd_length (s : List Char) : (spanIdent s).2.length ≤ s.length := by
  induction s with
  | nil => simp [spanIdent]
  | cons c r ih =>
    unfold spanIdent
    split
    · simp only [List.length_cons]; omega
    · simp

theorem spanIdent_all (s : List Char) : ∀ c ∈ (spanIdent s).1, isIdentC c = true := by
  induction s with
  | nil => simp [spanIdent]
  | cons c r ih =>
    unfold spanIdent
    split
    · rename_i h
      intro x hx
      simp only [List.mem_cons] at hx
      rcases hx with rfl | hx
      · exact h
      · exact ih x hx
    · simp

theorem scanStr_spec (s a b : List Char) (h : scanStr s = some (a, b)) :
    a ++ b = s ∧ b.length < s.length := by
  fun_induction scanStr s generalizing a b with
  | case1 => simp at h
  | case2 c r ih =>
    simp only [Option.map_eq_some_iff] at h
    obtain ⟨⟨a', b'⟩, h1, h2⟩ := h
    have := ih a' b' h1
    simp only [Prod.mk.injEq] at h2
    obtain ⟨rfl, rfl⟩ := h2
    simp only [List.cons_append, List.length_cons]
    exact ⟨by rw [this.1], by omega⟩
  | case3 => simp at h
  | case4 r =>
    simp only [Option.some.injEq, Prod.mk.injEq] at h
    obtain ⟨rfl, rfl⟩ := h
    simp
  | case5 c r _ _ _ ih =>
    simp only [Option.map_eq_some_iff] at h
    obtain ⟨⟨a', b'⟩, h1, h2⟩ := h
    have := ih a' b' h1
    simp only [Prod.mk.injEq] at h2
    obtain ⟨rfl, rfl⟩ := h2
    simp only [List.cons_append, List.length_cons]
    exact ⟨by rw [this.1], by omega⟩

/-- segmentation loses nothing: gluing the segments back gives the line -/
theorem unseg_segment (fuel : Nat) (s : List Char) (h : s.length < fuel) :
    unseg (segment fuel s) = s := by
  induction fuel generalizing s with
  | zero => omega
  | succ fuel ih =>
    unfold segment
    split
    · simp [unseg]
    · rename_i c r
      simp only [List.length_cons] at h
      split
      · simp only [unseg, List.flatMap_cons, Seg.text] at *
        rw [ih (c :: r) (by simp only [List.length_cons]; omega)]
        rfl
      · simp only [unseg, List.flatMap_cons, Seg.text] at *
        rw [ih r (by omega)]
        rfl
    · rename_i r
      simp only [List.length_cons] at h
      split
      · rename_i lit rest hs
        have := scanStr_spec r lit rest hs
        simp only [unseg, List.flatMap_cons, Seg.text] at *
        rw [ih rest (by omega)]
        simp [this.1]
      · simp only [unseg, List.flatMap_cons, Seg.text] at *
        rw [ih r (by omega)]
        rfl
    · rename_i c r _ _
      simp only [List.length_cons] at h
      split
      · have h1 := spanIdent_append (c :: r)
        have h2 : (spanIdent (c :: r)).2.length ≤ r.length := by
          rename_i hc
          simp only [spanIdent, hc, ↓reduceIte]
          exact spanIdent_snd_length r
        simp only [unseg, List.flatMap_cons, Seg.text] at *
        rw [ih _ (by omega)]
        exact h1
      · simp only [unseg, List.flatMap_cons, Seg.text] at *
        rw [ih r (by omega)]
        rfl

end CbModel.Preproc
